#!/opt/veriftools/pyvenv/bin/python
"""C19 / C18 (Python half): Hypothesis driver comparing the sudachipy bindings with the Rust
library through an oracle server (`vcheck oracle-server <worlds dir>`).

Every random choice is made by Hypothesis (seeded with --seed); the example about to run is
written to <replays>/python-current.json first so that an interpreter crash leaves its input
behind. The shrunk failing example, if any, is stored in the result file and as a replay file.
"""
import argparse
import json
import os
import subprocess
import sys
import threading
import traceback

ap = argparse.ArgumentParser()
ap.add_argument("--lib", required=True)
ap.add_argument("--worlds", required=True)
ap.add_argument("--oracle", required=True)
ap.add_argument("--seed", type=int, default=0)
ap.add_argument("--examples", type=int, default=200)
ap.add_argument("--out", required=True)
ap.add_argument("--replays", required=True)
ap.add_argument("--replay", default=None)
ap.add_argument("--threads", action="store_true", help="C18 mode: concurrent tokenizers on one Dictionary")
args = ap.parse_args()

sys.path.insert(0, args.lib)
import hypothesis
from hypothesis import given, settings, seed, HealthCheck, strategies as st

from tokenizers_standin import NormalizedString, PreTokenizedString, _CustomPreTokenizer  # registers the stand-in for `tokenizers`

import sudachipy  # noqa: E402  (the freshly built extension module)

os.makedirs(args.replays, exist_ok=True)

FIELDS = {
    "surface": 1, "pos": 4, "normalized_form": 8, "dictionary_form": 16, "reading_form": 32,
    "split_a": 64, "split_b": 128, "word_structure": 256, "synonym_group_id": 512,
}
PROJECTIONS = [None, "surface", "normalized", "reading", "dictionary", "dictionary_and_surface", "normalized_and_surface", "normalized_nouns"]
PROJ_REQUIRED = {None: 0, "surface": 0, "normalized": 8, "reading": 32, "dictionary": 16, "dictionary_and_surface": 16, "normalized_and_surface": 8, "normalized_nouns": 8}
POOL = list("abAZ012９。、！?.,「」（）() 　\t京都東一二十百千万あいアイーッｱﾞ㍿ﬁ½𠮷😀é́‍゙\u0000")


def close_subset(bits):
    if bits & (32 | 8 | 16):
        bits |= 1
    if bits & (64 | 128):
        bits |= 2
    return bits


class Oracle:
    def __init__(self):
        self.p = subprocess.Popen([args.oracle, "oracle-server", args.worlds], stdin=subprocess.PIPE, stdout=subprocess.PIPE, text=True, encoding="utf-8")
        self.lock = threading.Lock()

    def ask(self, req):
        with self.lock:
            self.p.stdin.write(json.dumps(req, ensure_ascii=True) + "\n")
            self.p.stdin.flush()
            line = self.p.stdout.readline()
        if not line:
            raise RuntimeError("oracle server died")
        return json.loads(line)


ORACLE = Oracle()
WORLDS = []
k = 0
while os.path.isdir(os.path.join(args.worlds, "world%d" % k)):
    d = os.path.join(args.worlds, "world%d" % k)
    keys = json.load(open(os.path.join(d, "keys.json"), encoding="utf-8"))
    dic = sudachipy.Dictionary(config_path=os.path.join(d, "sudachi.json"), resource_dir=d)
    # the same world with the optional configuration key "projection" set (Dictionary.create(projection=...)
    # overrides it, also with the value "surface")
    dics = {None: dic}
    base_cfg = json.load(open(os.path.join(d, "sudachi.json"), encoding="utf-8"))
    for cp in ("reading", "normalized", "dictionary"):
        cfgp = os.path.join(d, "sudachi-proj-%s.json" % cp)
        with open(cfgp, "w", encoding="utf-8") as f:
            json.dump(dict(base_cfg, projection=cp), f, ensure_ascii=False)
        dics[cp] = sudachipy.Dictionary(config_path=cfgp, resource_dir=d)
    WORLDS.append({"dir": d, "keys": [x for x in keys if x], "dic": dic, "dics": dics})
    k += 1
assert WORLDS, "no worlds"

MODES = {"A": sudachipy.SplitMode.A, "B": sudachipy.SplitMode.B, "C": sudachipy.SplitMode.C}


class Violation(Exception):
    def __init__(self, clause, detail):
        super().__init__("%s: %s" % (clause, detail))
        self.clause = clause
        self.detail = detail


def expected_surface(o, proj):
    pos = o["pos"]
    conj = pos[0] in ("動詞", "形容詞", "助動詞")
    if proj in (None, "surface"):
        return o["surface"]
    if proj == "normalized":
        return o["normalized_form"]
    if proj == "reading":
        return o["reading_form"]
    if proj == "dictionary":
        return o["dictionary_form"]
    if proj == "dictionary_and_surface":
        return o["surface"] if conj else o["dictionary_form"]
    if proj == "normalized_and_surface":
        return o["surface"] if conj else o["normalized_form"]
    if proj == "normalized_nouns":
        return o["normalized_form"] if pos[5] == "*" else o["surface"]
    raise AssertionError(proj)


def compare_morpheme(m, o, subset, proj, text, what):
    """m: python Morpheme, o: oracle dict; subset: closed bit set that was requested"""
    def chk(name, got, want):
        if got != want:
            raise Violation("field:" + name, "%s: %s = %r, library %r" % (what, name, got, want))
    chk("begin", m.begin(), o["begin"])
    chk("end", m.end(), o["end"])
    chk("raw_surface", m.raw_surface(), o["surface"])
    if text is not None and text[m.begin():m.end()] != m.raw_surface():
        raise Violation("codepoint-slice", "%s: text[%d:%d] = %r but raw_surface %r" % (what, m.begin(), m.end(), text[m.begin():m.end()], m.raw_surface()))
    chk("is_oov", m.is_oov(), o["is_oov"])
    chk("word_id", m.word_id(), o["word_id"])
    chk("dictionary_id", m.dictionary_id(), o["dictionary_id"])
    chk("len", len(m), o["end"] - o["begin"])
    if subset & 4:
        chk("part_of_speech", list(m.part_of_speech()), o["pos"])
        chk("part_of_speech_id", m.part_of_speech_id(), o["pos_id"])
    if subset & 8:
        chk("normalized_form", m.normalized_form(), o["normalized_form"])
    if subset & 16:
        chk("dictionary_form", m.dictionary_form(), o["dictionary_form"])
    if subset & 32:
        chk("reading_form", m.reading_form(), o["reading_form"])
    if subset & 512:
        chk("synonym_group_ids", list(m.synonym_group_ids()), o["synonym_group_ids"])
    need = PROJ_REQUIRED[proj]
    if (subset & need) == need and (proj in (None, "surface") or subset & 4 or proj in ("normalized", "reading", "dictionary")):
        chk("surface(projection=%s)" % proj, m.surface(), expected_surface(o, proj))
        chk("str", str(m), expected_surface(o, proj))
    repr(m)


def compare_list(ml, omorphs, subset, proj, text, what):
    if len(ml) != len(omorphs):
        raise Violation("count", "%s: %d morphemes, library %d: %r vs %r" % (what, len(ml), len(omorphs), [x.raw_surface() for x in ml], [x["surface"] for x in omorphs]))
    for i, (m, o) in enumerate(zip(ml, omorphs)):
        compare_morpheme(m, o, subset, proj, text, "%s morpheme %d" % (what, i))
    if len(ml):
        ml[0]
        ml[-1]
        try:
            ml[len(ml)]
            raise Violation("index", "%s: indexing past the end did not raise" % what)
        except IndexError:
            pass
    str(ml)
    repr(ml)
    bool(ml)


def run_example(ex):
    """ex = {"world": int, "ops": [...]}; returns True if non-trivial"""
    w = WORLDS[ex["world"] % len(WORLDS)]
    dic = w["dic"]
    widx = ex["world"] % len(WORLDS)
    toks = []
    out_list = None
    out_proj = None
    last = None  # (python list, oracle morphemes, subset, proj)
    nontrivial = False
    special_before = False

    def make(mode, fields, proj, cfgproj=None):
        kw = {}
        if fields is not None:
            kw["fields"] = set(fields)
        if proj is not None:
            kw["projection"] = proj
        d = w["dics"][cfgproj]
        t = d.create(MODES[mode] if mode else None, **kw) if mode else d.create(**kw)
        # the argument wins over the configuration key, "surface" included
        eff = proj if proj is not None else cfgproj
        bits = 1023 if fields is None else 0
        for f in fields or []:
            bits |= FIELDS[f]
        bits |= PROJ_REQUIRED[eff]
        # lists are only reused between tokenizers of one Dictionary object and one effective projection
        toks.append({"tok": t, "mode": mode or "C", "subset": close_subset(bits), "raw_subset": bits, "proj": eff, "family": (cfgproj, eff)})

    make(None, None, None)
    for op in ex["ops"]:
        kind = op[0]
        STATE["op_counts"][kind] = STATE["op_counts"].get(kind, 0) + 1
        if kind == "create":
            make(op[1], op[2], op[3], op[4] if len(op) > 4 else None)
        elif kind == "tokenize":
            t = toks[op[1] % len(toks)]
            text = op[2]
            override = op[3]
            reuse = op[4]
            eff = override or t["mode"]
            kw = {}
            if override:
                kw["mode"] = MODES[override] if op[5] else override
            # a result list keeps the projection of the tokenizer that created it: reuse it only
            # with tokenizers of the same projection (the documented use: the same tokenizer)
            if reuse and out_list is not None and out_proj == t["family"]:
                kw["out"] = out_list
            o = ORACLE.ask({"world": widx, "op": "tokenize", "text": text, "mode": eff, "subset": t["raw_subset"]})
            # a Morpheme object that outlives the reuse of its list: reading it afterwards may raise,
            # it must not take the interpreter down
            stale = None
            if "out" in kw and len(kw["out"]) > 0:
                stale = kw["out"][len(kw["out"]) - 1]
            try:
                ml = t["tok"].tokenize(text, **kw)
                if stale is not None:
                    try:
                        stale.surface(); stale.begin(); stale.end(); stale.part_of_speech(); stale.normalized_form(); repr(stale); stale.split(MODES["A"])
                    except BaseException as e:
                        if isinstance(e, (KeyboardInterrupt, SystemExit)):
                            raise
            except Exception as e:  # SudachiError on rejected input
                if o.get("ok"):
                    raise Violation("python-raises", "tokenize(%r, mode=%s) raised %r, the library succeeds" % (text, eff, e))
                last = None
                continue
            if not o.get("ok"):
                raise Violation("python-succeeds", "tokenize(%r, mode=%s) succeeded, the library fails: %s" % (text, eff, o))
            if "out" in kw and ml is not kw["out"]:
                raise Violation("out-identity", "tokenize(out=list) returned another object")
            compare_list(ml, o["morphemes"], t["subset"], t["proj"], text, "tokenize(%r, mode=%s%s)" % (text, eff, ", out=" if "out" in kw else ""))
            if t["tok"].mode != MODES[t["mode"]]:
                raise Violation("mode-leak", "a per-call mode override changed the tokenizer's mode")
            if special_before:
                nontrivial = True
            if override or "out" in kw:
                special_before = True
            if out_list is None or (reuse and "out" not in kw):
                out_list = ml
                out_proj = t["family"]
            last = (ml, o["morphemes"], t["subset"], t["proj"], text, t["family"], t)
        elif kind == "tokenize_rejected":
            # an input beyond the 49,149 byte limit: both sides must refuse it, and the tokenizer must
            # be as usable afterwards as before (mode override restored)
            t = toks[op[1] % len(toks)]
            text = "あ" * 16384 + "x" * (op[2] % 7)
            kw = {}
            if op[3]:
                kw["mode"] = MODES[op[3]]
            try:
                t["tok"].tokenize(text, **kw)
                raise Violation("oversized-accepted", "tokenize() accepted %d bytes" % len(text.encode("utf-8")))
            except Violation:
                raise
            except Exception:
                pass
            if t["tok"].mode != MODES[t["mode"]]:
                raise Violation("mode-leak", "a failed call with a mode override changed the tokenizer's mode to %s" % t["tok"].mode)
            special_before = True
            last = None
        elif kind == "split":
            if last is None or len(last[0]) == 0:
                continue
            ml, om, subset, proj, text, family, src_tok = last
            i = op[1] % len(ml)
            mode = op[2]
            add_single = op[4]
            kw = {}
            if add_single is not None:
                kw["add_single"] = add_single
            spare = None
            if op[3] == 2 and out_list is not None and out_list is not ml and out_proj == family:
                # a list that holds the result of ANOTHER tokenize call (another text) as output list
                kw["out"] = out_list
            elif op[3]:
                spare = ml[i].split(MODES[mode])  # a list to reuse
                kw["out"] = spare
            res = ml[i].split(MODES[mode] if op[5] else mode, **kw)
            info = om[i]["split_" + mode]
            if info["split"]:
                want = info["pieces"]
            elif add_single is None or add_single:
                want = [om[i]]
            else:
                want = []
            compare_list(res, want, subset, proj, text, "split(%s) of morpheme %d of %r" % (mode, i, text))
            if op[3] == 0 and op[1] % 3 == 0 and res is not ml and res is not out_list:
                # the split result becomes the out= list of another analysis: the list it was split from must still
                # report its own text (a split result shares the text of its source until it gets one of its own)
                other = "あa" if text != "あa" else "京"
                try:
                    src_tok["tok"].tokenize(other, out=res)
                except Exception:
                    pass
                compare_list(ml, om, subset, proj, text, "list of %r after a split result of it was reused as out= of tokenize(%r)" % (text, other))
        elif kind == "pretok":
            # Dictionary.pre_tokenizer (python/src/pretokenizer.rs) driven through a stand-in for the tokenizers
            # package: the pieces are the code-point slices [begin, end) of the text (or the projected strings), the
            # handler receives the library's morphemes, and the per-thread tokenizer / list are reused between calls
            _, mode, fields, use_handler, proj, cfgproj, texts, via_split = op
            if cfgproj is not None and proj == "surface":
                proj = None  # which of the two wins is not documented for pre_tokenizer: not generated
            d = w["dics"][cfgproj]
            eff = proj if proj is not None else cfgproj
            bits = PROJ_REQUIRED[cfgproj] | PROJ_REQUIRED[proj]
            if use_handler:
                if fields is None:
                    bits = 1023
                for f in fields or []:
                    bits |= FIELDS[f]
            subset = close_subset(bits)
            hstate = {"viol": None, "calls": 0, "o": None, "text": None}

            def handler(index, ns, ml):
                hstate["calls"] += 1
                try:
                    if index != 7 and not via_split:
                        raise Violation("pretok-index", "the handler received index %r" % (index,))
                    if str(ns) != hstate["text"]:
                        raise Violation("pretok-string", "the handler received %r for %r" % (str(ns), hstate["text"]))
                    compare_list(ml, hstate["o"], subset, cfgproj, hstate["text"], "pre_tokenizer handler list for %r" % hstate["text"])
                except Violation as v:
                    hstate["viol"] = v
                return [ns.slice(slice(m.begin(), m.end(), 1)) for m in ml]

            kw = {}
            if mode:
                kw["mode"] = MODES[mode]
            if fields is not None:
                kw["fields"] = set(fields)
            if use_handler:
                kw["handler"] = handler
            if proj is not None:
                kw["projection"] = proj
            pt = d.pre_tokenizer(**kw)
            if not isinstance(pt, _CustomPreTokenizer):
                raise Violation("pretok-type", "pre_tokenizer() returned %r" % (pt,))
            for text in texts:
                o = ORACLE.ask({"world": widx, "op": "tokenize", "text": text, "mode": mode or "C", "subset": bits})
                hstate["o"] = o.get("morphemes")
                hstate["text"] = text
                hstate["viol"] = None
                calls0 = hstate["calls"]
                try:
                    if via_split:
                        pts = PreTokenizedString(text)
                        pt.obj.pre_tokenize(pts)
                        pieces = pts.splits
                    else:
                        pieces = pt.obj(7, NormalizedString(text))
                except Violation:
                    raise
                except Exception as e:
                    if hstate["viol"] is not None:
                        raise hstate["viol"]
                    if o.get("ok"):
                        raise Violation("pretok-raises", "pre_tokenizer(%r, mode=%s) raised %r, the library succeeds" % (text, mode, e))
                    continue
                if hstate["viol"] is not None:
                    raise hstate["viol"]
                if not o.get("ok"):
                    raise Violation("pretok-succeeds", "pre_tokenizer(%r) succeeded, the library fails" % text)
                if use_handler and hstate["calls"] != calls0 + 1:
                    raise Violation("pretok-handler-calls", "the handler was called %d times for one string" % (hstate["calls"] - calls0))
                om = o["morphemes"]
                if not all(isinstance(x, NormalizedString) for x in pieces):
                    raise Violation("pretok-piece-type", "pieces of %r: %r" % (text, pieces))
                got = [str(x) for x in pieces]
                if use_handler or eff in (None, "surface"):
                    want = [x["surface"] for x in om]
                    if "".join(got) != text:
                        raise Violation("pretok-partition", "pieces %r of %r do not concatenate to the text" % (got, text))
                elif (subset & PROJ_REQUIRED[eff]) == PROJ_REQUIRED[eff] and (subset & 4 or eff in ("normalized", "reading", "dictionary")):
                    want = [expected_surface(x, eff) for x in om]
                else:
                    want = None
                    if len(got) != len(om):
                        raise Violation("pretok-count", "%d pieces for %r, the library has %d morphemes" % (len(got), text, len(om)))
                if want is not None and got != want:
                    raise Violation("pretok-pieces", "pre_tokenizer(mode=%s, projection=%s, handler=%s) on %r gives %r, library %r" % (mode, eff, use_handler, text, got, want))
                if len(texts) > 1:
                    nontrivial = True
        elif kind == "lookup":
            surface = op[1]
            kw = {}
            if op[2] and out_list is not None and out_proj == (None, None):
                kw["out"] = out_list
            o = ORACLE.ask({"world": widx, "op": "lookup", "surface": surface})
            try:
                res = dic.lookup(surface, **kw)
            except Exception as e:
                if o.get("ok"):
                    raise Violation("lookup-raises", "lookup(%r) raised %r" % (surface, e))
                continue
            if not o.get("ok"):
                raise Violation("lookup-succeeds", "lookup(%r) succeeded, the library fails" % surface)
            compare_list(res, o["morphemes"], 1023, None, None, "lookup(%r)" % surface)
            if "out" in kw:
                last = None
    return nontrivial


def example_strategy():
    def text_for(world):
        keys = WORLDS[world]["keys"]
        piece = st.one_of(st.sampled_from(keys), st.sampled_from(keys), st.sampled_from(POOL), st.characters(blacklist_categories=["Cs"]))
        return st.lists(piece, max_size=10).map("".join)

    modes = st.sampled_from(["A", "B", "C"])
    fields = st.one_of(st.none(), st.lists(st.sampled_from(sorted(FIELDS)), max_size=5).map(lambda l: sorted(set(l))))

    def ops_for(world):
        t = text_for(world)
        op = st.one_of(
            st.tuples(st.just("create"), st.one_of(st.none(), modes), fields, st.sampled_from(PROJECTIONS), st.sampled_from([None, None, "reading", "normalized", "dictionary"])),
            st.tuples(st.just("tokenize"), st.integers(0, 5), t, st.one_of(st.none(), st.none(), modes), st.booleans(), st.booleans()),
            st.tuples(st.just("tokenize"), st.integers(0, 5), t, st.one_of(st.none(), st.none(), modes), st.booleans(), st.booleans()),
            st.tuples(st.just("tokenize_rejected"), st.integers(0, 5), st.integers(0, 6), st.one_of(st.none(), modes)),
            st.tuples(st.just("split"), st.integers(0, 50), st.sampled_from(["A", "B"]), st.sampled_from([0, 1, 2, 2]), st.one_of(st.none(), st.booleans()), st.booleans()),
            st.tuples(st.just("lookup"), st.one_of(st.sampled_from(WORLDS[world]["keys"]), t), st.booleans()),
            st.tuples(st.just("pretok"), st.one_of(st.none(), modes), fields, st.booleans(), st.sampled_from(PROJECTIONS), st.sampled_from([None, None, None, "reading", "normalized"]), st.lists(t, min_size=1, max_size=4), st.booleans()),
        )
        return st.lists(op, min_size=1, max_size=10)

    return st.integers(0, len(WORLDS) - 1).flatmap(lambda w: st.fixed_dictionaries({"world": st.just(w), "ops": ops_for(w)}))


STATE = {"examples": 0, "nontrivial": 0, "samples": [], "failure": None, "op_counts": {}}


def to_jsonable(ex):
    return {"world": ex["world"], "ops": [list(o) for o in ex["ops"]]}


def one(ex):
    exj = to_jsonable(ex)
    with open(os.path.join(args.replays, "python-current.json"), "w", encoding="utf-8") as f:
        json.dump({"python": exj}, f, ensure_ascii=True)
    STATE["examples"] += 1
    try:
        nt = run_example(exj)
    except Violation as v:
        STATE["failure"] = {"clause": v.clause, "detail": v.detail, "case": {"python": exj}}
        raise
    except BaseException as e:
        if isinstance(e, (KeyboardInterrupt, SystemExit, GeneratorExit)):
            raise
        # pyo3's PanicException derives from BaseException: turn it into an ordinary failure so that it is
        # recorded with its history and shrunk like any other
        STATE["failure"] = {"clause": "python-exception:" + type(e).__name__, "detail": "".join(traceback.format_exception_only(type(e), e)).strip(), "case": {"python": exj}}
        if not isinstance(e, Exception):
            raise Violation("python-exception:" + type(e).__name__, STATE["failure"]["detail"])
        raise
    if nt:
        STATE["nontrivial"] += 1
        if len(STATE["samples"]) < 3:
            STATE["samples"].append(exj)


def finish(code):
    with open(args.out, "w", encoding="utf-8") as f:
        json.dump(STATE, f, ensure_ascii=False, indent=1)
    if STATE["failure"]:
        import hashlib
        h = hashlib.sha1(json.dumps(STATE["failure"]["case"], sort_keys=True).encode()).hexdigest()[:16]
        with open(os.path.join(args.replays, "python-%s.json" % h), "w", encoding="utf-8") as f:
            json.dump({"property": "C19", "clause": STATE["failure"]["clause"], "detail": STATE["failure"]["detail"], "case": STATE["failure"]["case"]}, f, ensure_ascii=False, indent=1)
    try:
        ORACLE.p.stdin.close()
        ORACLE.p.wait(timeout=5)
    except Exception:
        pass
    sys.stdout.flush()
    os._exit(code)


if args.replay:
    case = json.load(open(args.replay, encoding="utf-8"))
    case = case.get("case", case)
    try:
        run_example(case["python"])
        print("REPLAY PASS")
        finish(0)
    except Violation as v:
        print("REPLAY FAIL clause=python:%s detail=%s" % (v.clause, v.detail))
        STATE["failure"] = None
        finish(1)


@seed(args.seed)
@settings(max_examples=args.examples, database=None, deadline=None, derandomize=False, suppress_health_check=list(HealthCheck), print_blob=False)
@given(example_strategy())
def campaign(ex):
    one(ex)


def limit_examples():
    """Texts whose UTF-8 length sits on the library's input limit (49,149 bytes) and on 2^14 / 2^15 / 2^16 - 1
    code units: Python must accept and reject exactly what the library accepts and rejects, with equal morphemes."""
    exs = []
    for unit, w in (("a", 1), ("あ", 3), ("𠮷a", 5), ("é", 2)):
        for target in (49147, 49148, 49149, 49150, 49152, 16384, 32767, 32768):
            n = target // w
            text = unit * n + "x" * (target - n * w)
            exs.append({"world": 0, "ops": [("tokenize", 0, text, None, False, False), ("tokenize", 0, "あa", "A", True, False)]})
    return exs


def corpus_examples():
    """pinned histories (reproducers of fixed findings): corpus/C19/python/*.json next to this checkout"""
    d = os.path.join(os.path.dirname(os.path.dirname(os.path.abspath(__file__))), "corpus", "C19", "python")
    exs = []
    if os.path.isdir(d):
        for f in sorted(os.listdir(d)):
            if f.endswith(".json"):
                c = json.load(open(os.path.join(d, f), encoding="utf-8"))
                c = c.get("case", c)
                exs.append(c["python"])
    return exs


def fixed_examples():
    """Every projection crossed with the split call shapes on a text that has splittable words (world 0 is the
    repository's own test dictionary): create(projection=p) -> tokenize -> split(A / B) without out=, with a list of
    its own as out=, with add_single given; also with the projection set in the configuration instead."""
    exs = []
    text = "東京都に行った"
    for p in PROJECTIONS:
        for cfgp in (None, "reading"):
            ops = [("create", None, None, p, cfgp), ("tokenize", 1, text, None, False, False)]
            for i in range(3):
                ops.append(("split", i, "A", 0, None, False))
                ops.append(("split", i, "B", 1, True, True))
                ops.append(("split", i, "A", 0, False, False))
            exs.append({"world": 0, "ops": ops})
    # the pre-tokenizer: every projection x handler x entry point on texts with multi-byte, astral and normalised
    # characters (code-point slices), a rejected text in the middle
    big = "あ" * 16384
    for p in PROJECTIONS:
        for h in (False, True):
            for via in (False, True):
                exs.append({"world": 0, "ops": [("pretok", "A" if h else None, ["pos", "reading_form"] if h else None, h, p, None, [text, "𠮷野家で㍿を見た😀。", big, "", "ｱﾞ京都", text], via)]})
    return exs


try:
    for _ex in corpus_examples():
        one(_ex)
    for _ex in fixed_examples():
        one(_ex)
    for _ex in limit_examples():
        one(_ex)
    campaign()
    STATE["failure"] = None
    finish(0)
except BaseException:
    # STATE["failure"] holds the last (shrunk) failing example
    if STATE["failure"] is None:
        STATE["failure"] = {"clause": "driver", "detail": traceback.format_exc()[-1500:], "case": None}
    finish(1)
