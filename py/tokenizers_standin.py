"""Stand-in for the `tokenizers` package (not installed in this sandbox), just enough of it for
sudachipy's Dictionary.pre_tokenizer / SudachiPreTokenizer (python/src/pretokenizer.rs): NormalizedString with
str() and slice(range in code points, checked), PreTokenizedString.split(fn), PreTokenizer.custom(obj).
Import this module BEFORE sudachipy is asked for a pre-tokenizer; it registers itself in sys.modules."""
import sys
import types


class NormalizedString:
    """Stand-in for tokenizers.NormalizedString (the package is not installed): the two operations the
    pre-tokenizer of the bindings uses - str() and slice(range in code points) - with the range checked."""

    def __init__(self, s):
        self.s = str(s)

    def __str__(self):
        return self.s

    def slice(self, r):
        if not isinstance(r, slice) or r.step not in (None, 1) or r.start is None or r.stop is None:
            raise TypeError("slice() wants a plain slice, got %r" % (r,))
        if r.start < 0 or r.stop < r.start or r.stop > len(self.s):
            raise ValueError("slice %r outside a string of %d code points" % (r, len(self.s)))
        return NormalizedString(self.s[r.start:r.stop])


class PreTokenizedString:
    def __init__(self, s):
        self.splits = [NormalizedString(s)]

    def split(self, fn):
        new = []
        for i, ns in enumerate(self.splits):
            new.extend(fn(i, ns))
        self.splits = new


class _CustomPreTokenizer:
    def __init__(self, obj):
        self.obj = obj


class _PreTokenizer:
    @staticmethod
    def custom(obj):
        return _CustomPreTokenizer(obj)


try:
    import tokenizers  # noqa: F401
    raise RuntimeError("a real tokenizers package is installed; the stand-in is written for its absence")
except ImportError:
    _tk = types.ModuleType("tokenizers")
    _tk.NormalizedString = NormalizedString
    _tk.PreTokenizedString = PreTokenizedString
    _pt = types.ModuleType("tokenizers.pre_tokenizers")
    _pt.PreTokenizer = _PreTokenizer
    _tk.pre_tokenizers = _pt
    sys.modules["tokenizers"] = _tk
    sys.modules["tokenizers.pre_tokenizers"] = _pt

