#!/opt/veriftools/pyvenv/bin/python
"""C18 (Python half): threads sharing one sudachipy.Dictionary, each with its own Tokenizer,
must obtain what a sequential run gives (the GIL is released during analysis)."""
import argparse, json, os, sys, threading, traceback

ap = argparse.ArgumentParser()
ap.add_argument("--lib", required=True)
ap.add_argument("--worlds", required=True)
ap.add_argument("--seed", type=int, default=0)
ap.add_argument("--examples", type=int, default=25)
ap.add_argument("--out", required=True)
args = ap.parse_args()
sys.path.insert(0, args.lib)
from hypothesis import given, settings, seed, HealthCheck, strategies as st
from tokenizers_standin import NormalizedString  # registers the stand-in for the `tokenizers` package
import sudachipy

WORLDS = []
k = 0
while os.path.isdir(os.path.join(args.worlds, "world%d" % k)):
    d = os.path.join(args.worlds, "world%d" % k)
    keys = [x for x in json.load(open(os.path.join(d, "keys.json"), encoding="utf-8")) if x]
    WORLDS.append({"keys": keys, "dic": sudachipy.Dictionary(config_path=os.path.join(d, "sudachi.json"), resource_dir=d)})
    k += 1
MODES = {"A": sudachipy.SplitMode.A, "B": sudachipy.SplitMode.B, "C": sudachipy.SplitMode.C}
POOL = list("aA1９。、！?.「」 京都東一十百万あいアイーッｱﾞ㍿𠮷😀é") + ["(か)", "ーー", "3.14", "1,000"]
STATE = {"examples": 0, "failure": None, "samples": [], "with_shared_pretokenizer": 0}


def observe(tok, text, mode):
    try:
        ml = tok.tokenize(text, MODES[mode])
    except Exception as e:
        return "ERR"
    out = []
    for m in ml:
        out.append((m.begin(), m.end(), m.raw_surface(), m.word_id(), tuple(m.part_of_speech()), m.normalized_form(), m.dictionary_form(), m.reading_form(), [x.word_id() for x in m.split(MODES["A"])]))
    return out


def pretok_handler(index, ns, ml):
    return [NormalizedString("%s/%d/%s" % (ns.slice(slice(m.begin(), m.end(), 1)), m.word_id(), m.reading_form())) for m in ml]


def make_pretok(dic, spec):
    """spec = [mode, with_handler]: ONE SudachiPreTokenizer object (per-thread tokenizers and result lists inside)"""
    kw = {"mode": MODES[spec[0]]}
    if spec[1]:
        kw["handler"] = pretok_handler
    return dic.pre_tokenizer(**kw).obj


def observe_pt(pt, text):
    try:
        return [str(x) for x in pt(0, NormalizedString(text))]
    except Exception:
        return "ERR"


def run(ex):
    w = WORLDS[ex["world"] % len(WORLDS)]
    streams = ex["streams"]
    # sequential reference with fresh tokenizers
    want = []
    for s in streams:
        tok = w["dic"].create()
        want.append([observe(tok, t, m) for (t, m) in s])
    spec = ex.get("pretok")
    if spec:
        # the shared pre-tokenizer object: sequential reference from an object of its own
        ref = make_pretok(w["dic"], spec)
        for i, s in enumerate(streams):
            want[i] = want[i] + [observe_pt(ref, t) for (t, _m) in s]
        shared = make_pretok(w["dic"], spec)
    got = [None] * len(streams)
    barrier = threading.Barrier(len(streams))
    toks = [w["dic"].create() for _ in streams]

    def work(i):
        barrier.wait()
        res = []
        for _ in range(ex["repeat"]):
            res = [observe(toks[i], t, m) for (t, m) in streams[i]]
            if spec:
                res = res + [observe_pt(shared, t) for (t, _m) in streams[i]]
        got[i] = res

    ths = [threading.Thread(target=work, args=(i,)) for i in range(len(streams))]
    for t in ths:
        t.start()
    for t in ths:
        t.join()
    for i in range(len(streams)):
        if got[i] != want[i]:
            j = next((j for j in range(len(want[i])) if got[i] is None or got[i][j] != want[i][j]), 0)
            raise AssertionError("thread %d text %r%s: concurrent result differs from the sequential one" % (i, streams[i][j % len(streams[i])][0], " (shared pre-tokenizer)" if j >= len(streams[i]) else ""))


def strategy():
    def for_world(wi):
        keys = WORLDS[wi]["keys"]
        piece = st.one_of(st.sampled_from(keys), st.sampled_from(keys), st.sampled_from(POOL))
        text = st.lists(piece, min_size=1, max_size=12).map("".join)
        item = st.tuples(text, st.sampled_from(["A", "B", "C"]))
        return st.fixed_dictionaries({"world": st.just(wi), "streams": st.lists(st.lists(item, min_size=3, max_size=25), min_size=2, max_size=8), "repeat": st.integers(1, 4), "pretok": st.one_of(st.none(), st.tuples(st.sampled_from(["A", "B", "C"]), st.booleans()).map(list))})
    return st.integers(0, len(WORLDS) - 1).flatmap(for_world)


@seed(args.seed)
@settings(max_examples=args.examples, database=None, deadline=None, suppress_health_check=list(HealthCheck), print_blob=False)
@given(strategy())
def campaign(ex):
    exj = {"world": ex["world"], "repeat": ex["repeat"], "pretok": ex["pretok"], "streams": [[list(x) for x in s] for s in ex["streams"]]}
    STATE["examples"] += 1
    try:
        run(exj)
    except Exception as e:
        STATE["failure"] = {"clause": "threads:" + type(e).__name__, "detail": str(e)[:800], "case": {"python_threads": exj}}
        raise
    if exj["pretok"]:
        STATE["with_shared_pretokenizer"] += 1
    if len(STATE["samples"]) < 2:
        STATE["samples"].append({"threads": len(exj["streams"]), "first_stream": exj["streams"][0][:3]})


code = 0
try:
    campaign()
    STATE["failure"] = None
except BaseException:
    code = 1
    if STATE["failure"] is None:
        STATE["failure"] = {"clause": "driver", "detail": traceback.format_exc()[-1200:], "case": None}
json.dump(STATE, open(args.out, "w", encoding="utf-8"), ensure_ascii=False, indent=1)
sys.stdout.flush()
os._exit(code)
