#!/usr/bin/env python3
"""C06, the Python entry points of the dictionary compiler (sudachipy.sudachipy.build_system_dic /
build_user_dic): one case per process, read from stdin as JSON

    {"matrix": str, "csv": str, "user_csv": str|null, "limits": [int, ...], "dir": str}

For every limit N the output file may not grow beyond N bytes (RLIMIT_FSIZE; the interpreter ignores
SIGXFSZ, so the write fails with EFBIG exactly like a full disk fails with ENOSPC). The result, one
JSON object on stdout:

    {"system": {"size": int|null, "error": str|null, "outcome": str} (the file stays at <dir>/system.dic), "runs": [{"limit": N, "which": "system"|"user",
      "outcome": "raised"|"returned", "file_size": int, "message": str}], "user": {...}}

The oracle is applied by the caller (harness/src/props/c06.rs): a build that returns normally must have
produced the complete file.
"""
import json
import os
import resource
import sys

lib = sys.argv[1]
sys.path.insert(0, lib)
from sudachipy import sudachipy as native  # noqa: E402

case = json.load(sys.stdin)
d = case["dir"]
os.makedirs(d, exist_ok=True)
SOFT, HARD = resource.getrlimit(resource.RLIMIT_FSIZE)


def build(which, out, limit):
    if os.path.exists(out):
        os.remove(out)
    if limit is not None:
        resource.setrlimit(resource.RLIMIT_FSIZE, (limit, HARD))
    try:
        try:
            if which == "system":
                native.build_system_dic(case["matrix"].encode("utf-8"), [case["csv"].encode("utf-8")], out, "verif")
            else:
                native.build_user_dic(os.path.join(d, "system.dic"), [case["user_csv"].encode("utf-8")], out, "verif")
            outcome, msg = "returned", ""
        except BaseException as e:  # noqa: BLE001  PanicException derives from BaseException
            if isinstance(e, (KeyboardInterrupt, SystemExit)):
                raise
            outcome, msg = ("panicked" if type(e).__name__ == "PanicException" else "raised"), "%s: %s" % (type(e).__name__, e)
    finally:
        resource.setrlimit(resource.RLIMIT_FSIZE, (SOFT, HARD))
    size = os.path.getsize(out) if os.path.exists(out) else -1
    return outcome, msg[:300], size


def full(which, name):
    out = os.path.join(d, name)
    outcome, msg, size = build(which, out, None)
    if outcome != "returned":
        return {"size": None, "error": msg, "outcome": outcome}
    return {"size": size, "error": None, "outcome": outcome}


res = {"system": full("system", "system.dic"), "user": None, "runs": []}
whiches = ["system"] if res["system"]["size"] is not None else []
if case.get("user_csv") is not None and res["system"]["size"] is not None:
    res["user"] = full("user", "user.dic")
    if res["user"]["size"] is not None:
        whiches.append("user")
for which in whiches:
    total = res[which]["size"]
    for spec in case["limits"]:
        # limits are given as 16-bit fractions of the file size, or as absolute distances from its end (negative)
        n = total + spec if spec < 0 else (spec * total) >> 16
        n = max(0, n)
        outcome, msg, size = build(which, os.path.join(d, "limited.dic"), n)
        res["runs"].append({"limit": n, "which": which, "total": total, "outcome": outcome, "message": msg, "file_size": size})
json.dump(res, sys.stdout)
