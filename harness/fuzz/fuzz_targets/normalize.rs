#![no_main]
use libfuzzer_sys::fuzz_target;

fuzz_target!(|data: &[u8]| {
    if let Err(f) = sudachi_verif::fuzz::run_target("normalize", data) {
        eprintln!("ORACLE FAILURE clause={} detail={}", f.clause, f.detail);
        std::process::abort();
    }
});
