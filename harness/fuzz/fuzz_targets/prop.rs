#![no_main]
//! Generic structured target: VERIF_FUZZ_PROP=<Cxx> selects the property; the input bytes feed
//! proptest's pass-through RNG (see sudachi_verif::fuzz::fuzz_prop).
use libfuzzer_sys::fuzz_target;
use std::sync::OnceLock;

static TARGET: OnceLock<String> = OnceLock::new();

fuzz_target!(|data: &[u8]| {
    let t = TARGET.get_or_init(|| format!("prop:{}", std::env::var("VERIF_FUZZ_PROP").unwrap_or_else(|_| "C01".to_string())));
    if let Err(f) = sudachi_verif::fuzz::run_target(t, data) {
        eprintln!("ORACLE FAILURE clause={} detail={}", f.clause, f.detail);
        std::process::abort();
    }
});
