//! Command-line driver for one property: corpus replay, known findings, campaign, evidence.

use crate::engine::*;
use serde_json::{json, Value};
use std::path::PathBuf;

#[derive(Clone, Debug)]
pub struct Finding {
    pub status: String, // "known" | "fixed"
    pub property: String,
    pub finding: String,
    pub clause: String,
    pub reproducer: String,
    pub what: String,
}

/// known_findings.txt line formats:
///   known: property=<id> finding=<Fx> clause=<oracle clause> reproducer=<path under /verif> <what fails>
///   fixed: property=<id> <commit> <what failed>
pub fn load_findings() -> Vec<Finding> {
    let p = verif_root().join("known_findings.txt");
    let mut v = Vec::new();
    let text = std::fs::read_to_string(&p).unwrap_or_default();
    for line in text.lines() {
        let line = line.trim();
        if line.is_empty() || line.starts_with('#') {
            continue;
        }
        let (status, rest) = match line.split_once(':') {
            Some((s, r)) => (s.trim().to_string(), r.trim()),
            None => continue,
        };
        let mut f = Finding {
            status,
            property: String::new(),
            finding: String::new(),
            clause: String::new(),
            reproducer: String::new(),
            what: String::new(),
        };
        let mut what = Vec::new();
        for tok in rest.split_whitespace() {
            if what.is_empty() {
                if let Some(x) = tok.strip_prefix("property=") {
                    f.property = x.to_string();
                    continue;
                }
                if let Some(x) = tok.strip_prefix("finding=") {
                    f.finding = x.to_string();
                    continue;
                }
                if let Some(x) = tok.strip_prefix("clause=") {
                    f.clause = x.to_string();
                    continue;
                }
                if let Some(x) = tok.strip_prefix("reproducer=") {
                    f.reproducer = x.to_string();
                    continue;
                }
            }
            what.push(tok);
        }
        f.what = what.join(" ");
        v.push(f);
    }
    v
}

pub struct Args {
    pub tier: Tier,
    pub seed: u64,
    pub replay: Option<PathBuf>,
}

fn write_replay(prop: &str, case: &Value, f: &Failure) -> PathBuf {
    let enc = serde_json::to_string(case).unwrap_or_default();
    let d = digest(&format!("{}{}", enc, f.clause));
    let path = verif_root().join("replays").join(prop).join(format!("{:016x}.json", d));
    write_json(
        &path,
        &json!({"property": prop, "clause": f.clause, "detail": f.detail, "case": case}),
    );
    path
}

/// Returns the process exit code.
pub fn run_property<P: Property>(p: &P, args: &Args) -> i32 {
    install_panic_hook();
    let root = verif_root();
    let id = p.id();

    // ---- explicit replay ---------------------------------------------------------------
    if let Some(path) = &args.replay {
        let text = match std::fs::read_to_string(path) {
            Ok(t) => t,
            Err(e) => {
                println!("cannot read {}: {}", path.display(), e);
                return 2;
            }
        };
        let v: Value = match serde_json::from_str(&text) {
            Ok(v) => v,
            Err(e) => {
                println!("cannot parse {}: {}", path.display(), e);
                return 2;
            }
        };
        let case = v.get("case").cloned().unwrap_or(v);
        return match replay_case(p, &case, args.tier, true) {
            Ok(rep) => match rep.failure {
                Some(f) => {
                    println!("REPLAY FAIL clause={} detail={}", f.clause, f.detail);
                    println!("VIOLATION property={} replay={}", id, path.display());
                    1
                }
                None => {
                    println!("REPLAY PASS property={} ({})", id, path.display());
                    0
                }
            },
            Err(e) => {
                println!("replay error: {}", e);
                2
            }
        };
    }

    let mut violations: Vec<String> = Vec::new();
    let mut known_lines: Vec<String> = Vec::new();
    let mut corpus_evals = 0u64;

    // ---- known findings: replay their reproducers in strict mode ---------------------------
    let findings = load_findings();
    for f in findings.iter().filter(|f| f.property == id && f.status == "known") {
        let path = root.join(&f.reproducer);
        let v: Option<Value> = std::fs::read_to_string(&path).ok().and_then(|t| serde_json::from_str(&t).ok());
        let Some(v) = v else {
            println!("known finding {}: reproducer {} unreadable", f.finding, path.display());
            return 2;
        };
        let case = v.get("case").cloned().unwrap_or(v);
        if f.clause == "crash" {
            // the recorded finding takes the process down (stack overflow, abort): replay in a child; the child's
            // crash handler turns the fatal signal into exit code 1
            let exe = std::env::current_exe().expect("current exe");
            let st = std::process::Command::new(exe)
                .args([id, args.tier.name(), "--replay", path.to_str().unwrap()])
                .stdout(std::process::Stdio::null())
                .stderr(std::process::Stdio::null())
                .status();
            corpus_evals += 1;
            match st {
                Ok(st) if st.code() == Some(0) => println!("NOTE: known finding {} no longer reproduces on this tree", f.finding),
                Ok(_) => {
                    let line = format!("KNOWN-FINDING: property={} {} [crash] {}", id, f.finding, f.what);
                    println!("{}", line);
                    known_lines.push(line);
                }
                Err(e) => {
                    println!("known finding {}: cannot run the replay child: {}", f.finding, e);
                    return 2;
                }
            }
            continue;
        }
        if f.clause == "hang" {
            // non-termination cannot be observed in-process: replay in a child with a wall-clock
            // cap far above the expected run time (microseconds). Only used to REPORT a recorded
            // finding, never to raise an alarm.
            let exe = std::env::current_exe().expect("current exe");
            let mut child = std::process::Command::new(exe)
                .args([id, args.tier.name(), "--replay", path.to_str().unwrap()])
                .stdout(std::process::Stdio::null())
                .stderr(std::process::Stdio::null())
                .spawn()
                .expect("spawn replay child");
            let t0 = std::time::Instant::now();
            let mut finished = None;
            while t0.elapsed().as_secs() < 10 {
                if let Ok(Some(st)) = child.try_wait() {
                    finished = Some(st);
                    break;
                }
                std::thread::sleep(std::time::Duration::from_millis(50));
            }
            corpus_evals += 1;
            match finished {
                None => {
                    let _ = child.kill();
                    let _ = child.wait();
                    let line = format!("KNOWN-FINDING: property={} {} [hang] {}", id, f.finding, f.what);
                    println!("{}", line);
                    known_lines.push(line);
                }
                Some(st) if st.code() == Some(0) => println!("NOTE: known finding {} no longer reproduces on this tree", f.finding),
                Some(st) => {
                    println!("reproducer of {} terminated with {:?} instead of hanging", f.finding, st.code());
                    println!("VIOLATION property={} replay={}", id, path.display());
                    violations.push(path.display().to_string());
                }
            }
            continue;
        }
        match replay_case(p, &case, args.tier, true) {
            Ok(rep) => {
                corpus_evals += 1;
                match rep.failure {
                    Some(fl) if fl.clause == f.clause => {
                        let line = format!("KNOWN-FINDING: property={} {} [{}] {}", id, f.finding, f.clause, f.what);
                        println!("{}", line);
                        known_lines.push(line);
                    }
                    Some(fl) => {
                        // same input, different failure: not the recorded finding
                        let rp = write_replay(id, &case, &fl);
                        println!("corpus reproducer of {} failed differently: {} ({})", f.finding, fl.clause, fl.detail);
                        println!("VIOLATION property={} replay={}", id, rp.display());
                        violations.push(rp.display().to_string());
                    }
                    None => {
                        println!("NOTE: known finding {} no longer reproduces on this tree", f.finding);
                    }
                }
            }
            Err(e) => {
                println!("known finding {}: {}", f.finding, e);
                return 2;
            }
        }
    }

    // ---- corpus (regression) replay: must pass in strict mode ------------------------------
    let known_repros: Vec<PathBuf> = findings.iter().filter(|f| f.status == "known").map(|f| root.join(&f.reproducer)).collect();
    let cdir = root.join("corpus").join(id);
    let mut files: Vec<PathBuf> = std::fs::read_dir(&cdir)
        .map(|rd| rd.filter_map(|e| e.ok().map(|e| e.path())).filter(|p| p.extension().map(|x| x == "json").unwrap_or(false)).collect())
        .unwrap_or_default();
    files.sort();
    for path in files {
        if known_repros.contains(&path) {
            continue;
        }
        let v: Option<Value> = std::fs::read_to_string(&path).ok().and_then(|t| serde_json::from_str(&t).ok());
        let Some(v) = v else { continue };
        let case = v.get("case").cloned().unwrap_or(v);
        match replay_case(p, &case, args.tier, true) {
            Ok(rep) => {
                corpus_evals += 1;
                if let Some(fl) = rep.failure {
                    println!("corpus case {} fails: {} ({})", path.display(), fl.clause, fl.detail);
                    println!("VIOLATION property={} replay={}", id, path.display());
                    violations.push(path.display().to_string());
                }
            }
            Err(e) => {
                println!("corpus case {} cannot be decoded ({}); skipped", path.display(), e);
            }
        }
    }

    // ---- generated campaign ------------------------------------------------------------------
    let mut out = run_campaign(p, args.tier, args.seed);
    out.stats.extra.insert("corpus_replayed".into(), json!(corpus_evals));
    out.stats.evaluations += corpus_evals;
    for (case, f) in &out.failures {
        let rp = write_replay(id, case, f);
        println!("FAIL clause={} detail={}", f.clause, truncate(&f.detail, 600));
        println!("VIOLATION property={} replay={}", id, rp.display());
        violations.push(rp.display().to_string());
    }

    let ev = evidence_json(p, args.tier, args.seed, &out, violations.len(), &known_lines);
    write_json(&root.join("evidence").join(format!("{}.json", id)), &ev);
    println!(
        "{} {} seed={} evaluations={} distinct_nontrivial={} excluded={:?} wall={:.1}s violations={}",
        id,
        args.tier.name(),
        args.seed,
        out.stats.evaluations,
        out.stats.nontrivial.len(),
        out.stats.excluded,
        out.wall_s,
        violations.len()
    );
    if !violations.is_empty() {
        return 1;
    }
    if out.stats.nontrivial.len() < 2 {
        println!("INCONCLUSIVE: fewer than 2 non-trivial cases");
        return 2;
    }
    let rejected = out.stats.classes.get("rejected").cloned().unwrap_or(0);
    if rejected * 5 > out.stats.evaluations {
        println!("INCONCLUSIVE: {} of {} generated cases were rejected by the compiler/loader (generator problem)", rejected, out.stats.evaluations);
        return 2;
    }
    0
}

pub fn truncate(s: &str, n: usize) -> String {
    if s.chars().count() <= n {
        s.to_string()
    } else {
        let t: String = s.chars().take(n).collect();
        format!("{}…", t)
    }
}
