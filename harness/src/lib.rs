pub mod common;
pub mod driver;
pub mod engine;
pub mod fuzz;
pub mod gen;
pub mod model;
pub mod props;
