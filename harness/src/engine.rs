//! Seeded, sharded property runner on top of proptest's `TestRunner`.
//!
//! * every run is a pure function of (tree, tier, VERIF_SEED): fixed shard count, fixed case
//!   count per shard, per-shard seed derived by splitmix from (seed, property id, shard);
//! * panics inside the code under test are caught per case and turned into failures;
//! * a failing case is shrunk by proptest, re-checked once in strict mode outside proptest and
//!   written as a self-contained JSON replay file;
//! * evidence (counts, class histogram, samples) is written on every run.

use proptest::strategy::BoxedStrategy;
use proptest::test_runner::{Config, RngSeed, TestCaseError, TestError, TestRunner};
use serde::{de::DeserializeOwned, Serialize};
use serde_json::{json, Value};
use std::cell::RefCell;
use std::collections::{BTreeMap, BTreeSet};
use std::fmt::Debug;
use std::hash::{Hash, Hasher};
use std::panic::{catch_unwind, AssertUnwindSafe};
use std::path::{Path, PathBuf};
use std::time::Instant;

pub const SHARDS: u32 = 16;

#[derive(Clone, Copy, Debug, PartialEq, Eq)]
pub enum Tier {
    Quick,
    Thorough,
}

impl Tier {
    pub fn name(self) -> &'static str {
        match self {
            Tier::Quick => "quick",
            Tier::Thorough => "thorough",
        }
    }
    pub fn pick<T>(self, q: T, t: T) -> T {
        match self {
            Tier::Quick => q,
            Tier::Thorough => t,
        }
    }
}

#[derive(Clone, Debug)]
pub struct Failure {
    /// oracle clause that failed (stable, short: used as part of finding signatures)
    pub clause: String,
    pub detail: String,
}

/// What one execution of one case tells the engine.
#[derive(Default, Debug)]
pub struct Report {
    pub nontrivial: bool,
    pub classes: Vec<&'static str>,
    /// Set when the case falls into the input class of a recorded known finding and was
    /// therefore not judged (counted in evidence as excluded).
    pub excluded: Option<&'static str>,
    pub failure: Option<Failure>,
}

impl Report {
    pub fn fail(&mut self, clause: &str, detail: impl Into<String>) {
        if self.failure.is_none() {
            self.failure = Some(Failure {
                clause: clause.to_string(),
                detail: detail.into(),
            });
        }
    }
    pub fn class(&mut self, c: &'static str) {
        if !self.classes.contains(&c) {
            self.classes.push(c);
        }
    }
    pub fn failed(&self) -> bool {
        self.failure.is_some()
    }
}

/// Per-thread context handed to checks.
pub struct Ctx {
    /// scratch directory private to this thread (files written by config models)
    pub dir: PathBuf,
    /// strict = replay mode: known-finding classes are NOT excluded
    pub strict: bool,
    pub tier: Tier,
}

pub trait Property: Sync {
    type Case: Clone + Debug + Serialize + DeserializeOwned + Send + 'static;
    fn id(&self) -> &'static str;
    /// how cases are generated and what makes one non-trivial
    fn rule(&self) -> &'static str;
    fn assumptions(&self) -> Vec<&'static str> {
        vec![]
    }
    fn strategy(&self, tier: Tier) -> BoxedStrategy<Self::Case>;
    fn cases_per_shard(&self, tier: Tier) -> u32;
    fn check(&self, case: &Self::Case, ctx: &mut Ctx) -> Report;
    /// Deterministic extra work that is not proptest-driven (finite enumerations, sweeps, child
    /// processes). Returns failing cases as (case-json, failure).
    fn extra(&self, _tier: Tier, _seed: u64, _ctx: &mut Ctx, _stats: &mut Stats) -> Vec<(Value, Failure)> {
        vec![]
    }
    /// true for properties that state termination: a watchdog hit is then a VIOLATION (exit 1)
    fn hang_is_violation(&self) -> bool {
        false
    }
    /// Sample rendering for evidence (default: the JSON encoding of the case)
    fn sample(&self, case: &Self::Case) -> Value {
        serde_json::to_value(case).unwrap_or(Value::Null)
    }
}

#[derive(Default)]
pub struct Stats {
    pub evaluations: u64,
    pub nontrivial: BTreeSet<u64>,
    pub classes: BTreeMap<String, u64>,
    pub excluded: BTreeMap<String, u64>,
    pub samples_nontrivial: Vec<Value>,
    pub samples_indexed: Vec<Value>,
    pub extra: BTreeMap<String, Value>,
}

impl Stats {
    pub fn merge(&mut self, o: Stats) {
        self.evaluations += o.evaluations;
        self.nontrivial.extend(o.nontrivial);
        for (k, v) in o.classes {
            *self.classes.entry(k).or_default() += v;
        }
        for (k, v) in o.excluded {
            *self.excluded.entry(k).or_default() += v;
        }
        for s in o.samples_nontrivial {
            if self.samples_nontrivial.len() < 3 {
                self.samples_nontrivial.push(s);
            }
        }
        for s in o.samples_indexed {
            if self.samples_indexed.len() < 3 {
                self.samples_indexed.push(s);
            }
        }
        for (k, v) in o.extra {
            self.extra.insert(k, v);
        }
    }
    /// record an evaluation coming from `extra` machinery
    pub fn record(&mut self, digest_src: &str, nontrivial: bool, class: Option<&str>) {
        self.evaluations += 1;
        if nontrivial {
            self.nontrivial.insert(digest(digest_src));
        }
        if let Some(c) = class {
            *self.classes.entry(c.to_string()).or_default() += 1;
        }
    }
}

pub fn digest(s: &str) -> u64 {
    #[allow(deprecated)]
    let mut h = std::hash::SipHasher::new_with_keys(0, 0);
    s.hash(&mut h);
    h.finish()
}

pub fn splitmix(mut x: u64) -> u64 {
    x = x.wrapping_add(0x9E3779B97F4A7C15);
    let mut z = x;
    z = (z ^ (z >> 30)).wrapping_mul(0xBF58476D1CE4E5B9);
    z = (z ^ (z >> 27)).wrapping_mul(0x94D049BB133111EB);
    z ^ (z >> 31)
}

pub fn shard_seed(seed: u64, prop: &str, shard: u32) -> u64 {
    let mut x = splitmix(seed ^ 0x5eed_5eed);
    for b in prop.bytes() {
        x = splitmix(x ^ b as u64);
    }
    splitmix(x ^ ((shard as u64) << 32))
}

// ------------------------------------------------------------------------------------------
// panic capture

thread_local! {
    static LAST_PANIC: RefCell<Option<String>> = RefCell::new(None);
}

pub fn install_panic_hook() {
    std::panic::set_hook(Box::new(|info| {
        let loc = info
            .location()
            .map(|l| format!("{}:{}", l.file(), l.line()))
            .unwrap_or_else(|| "?".to_string());
        let msg = if let Some(s) = info.payload().downcast_ref::<&str>() {
            s.to_string()
        } else if let Some(s) = info.payload().downcast_ref::<String>() {
            s.clone()
        } else {
            "<non-string panic>".to_string()
        };
        if std::env::var("VERIF_BACKTRACE").is_ok() {
            eprintln!("panic: {} @ {}\n{}", msg, loc, std::backtrace::Backtrace::force_capture());
        }
        LAST_PANIC.with(|p| *p.borrow_mut() = Some(format!("{} @ {}", msg, loc)));
    }));
}

/// Run `f`, converting a panic into `Err(message @ location)`.
pub fn guarded<T>(f: impl FnOnce() -> T) -> Result<T, String> {
    LAST_PANIC.with(|p| *p.borrow_mut() = None);
    match catch_unwind(AssertUnwindSafe(f)) {
        Ok(v) => Ok(v),
        Err(_) => Err(LAST_PANIC
            .with(|p| p.borrow_mut().take())
            .unwrap_or_else(|| "panic (no message)".to_string())),
    }
}

/// strips the path prefix and line number so that signatures survive unrelated edits
pub fn panic_site(msg: &str) -> String {
    match msg.rfind(" @ ") {
        Some(i) => {
            let loc = &msg[i + 3..];
            let file = loc.rsplit('/').next().unwrap_or(loc);
            let file = file.split(':').next().unwrap_or(file);
            file.to_string()
        }
        None => "?".to_string(),
    }
}

// ------------------------------------------------------------------------------------------

pub fn verif_root() -> PathBuf {
    if let Ok(r) = std::env::var("VERIF_ROOT") {
        return PathBuf::from(r);
    }
    let mut p = PathBuf::from(env!("CARGO_MANIFEST_DIR"));
    p.pop();
    p
}

pub fn scratch_dir(tag: &str) -> PathBuf {
    let base = verif_root().join("work");
    let d = base.join(format!("{}-{}", std::process::id(), tag));
    let _ = std::fs::create_dir_all(&d);
    d
}

// ------------------------------------------------------------------------------------------
// watchdog: a case that runs far longer than any case should is reported as HANG (exit 2,
// "inconclusive"), with the case written out; the process cannot continue because a thread
// stuck inside the library cannot be cancelled.

pub struct WatchSlot {
    pub prop: String,
    pub violation: bool,
    pub current: std::sync::Mutex<Option<(Instant, String)>>,
}

static WATCH: std::sync::Mutex<Vec<std::sync::Arc<WatchSlot>>> = std::sync::Mutex::new(Vec::new());

pub fn watch_register(prop: &str, violation: bool) -> std::sync::Arc<WatchSlot> {
    let s = std::sync::Arc::new(WatchSlot { prop: prop.to_string(), violation, current: std::sync::Mutex::new(None) });
    WATCH.lock().unwrap().push(s.clone());
    s
}

pub fn case_timeout_s() -> u64 {
    // cases take milliseconds; ten minutes leaves room for a machine that is heavily oversubscribed (a soak that
    // shared the box with ten compiling sub-agents once stalled a 0.2 s case for more than two minutes)
    std::env::var("VERIF_CASE_TIMEOUT").ok().and_then(|x| x.parse().ok()).unwrap_or(600)
}

pub fn start_watchdog() {
    static STARTED: std::sync::Once = std::sync::Once::new();
    STARTED.call_once(|| {
        std::thread::spawn(|| loop {
            std::thread::sleep(std::time::Duration::from_millis(500));
            let limit = case_timeout_s();
            let slots = WATCH.lock().unwrap().clone();
            for s in slots {
                let cur = s.current.lock().unwrap().clone();
                if let Some((t0, case)) = cur {
                    if t0.elapsed().as_secs() >= limit {
                        let d = digest(&case);
                        let path = verif_root().join("replays").join(&s.prop).join(format!("hang-{:016x}.json", d));
                        let v: Value = serde_json::from_str(&case).unwrap_or(Value::Null);
                        write_json(&path, &json!({"property": s.prop, "clause": "watchdog", "detail": format!("case still running after {} s", limit), "case": v}));
                        println!("HANG property={} case running for more than {} s; case written to {}", s.prop, limit, path.display());
                        if s.violation {
                            println!("VIOLATION property={} replay={}", s.prop, path.display());
                            std::process::exit(1);
                        }
                        println!("INCONCLUSIVE: watchdog fired (exit 2)");
                        std::process::exit(2);
                    }
                }
            }
        });
    });
}

pub struct RunOutcome {
    pub stats: Stats,
    /// (case json, failure) — already shrunk
    pub failures: Vec<(Value, Failure)>,
    pub wall_s: f64,
}

fn run_shard<P: Property>(p: &P, tier: Tier, seed: u64, shard: u32, cases: u32) -> (Stats, Option<(Value, Failure)>) {
    let ctx = RefCell::new(Ctx {
        dir: scratch_dir(&format!("{}-s{}", p.id(), shard)),
        strict: false,
        tier,
    });
    let stats = RefCell::new(Stats::default());
    let first_fail: RefCell<Option<Failure>> = RefCell::new(None);
    let s = shard_seed(seed, p.id(), shard);
    let cfg = Config {
        cases,
        rng_seed: RngSeed::Fixed(s),
        failure_persistence: None,
        max_shrink_iters: 200_000,
        max_shrink_time: 20_000,
        verbose: 0,
        ..Config::default()
    };
    let mut runner = TestRunner::new(cfg);
    let strat = p.strategy(tier);
    let slot = watch_register(p.id(), p.hang_is_violation());
    crash::register_thread(p.id(), &verif_root().join("replays").join(p.id()).join(format!("crash-shard{}.json", shard)));
    let index = std::cell::Cell::new(0u64);
    let result = runner.run(&strat, |case| {
        let counting = first_fail.borrow().is_none();
        let enc = serde_json::to_string(&case).unwrap_or_default();
        *slot.current.lock().unwrap() = Some((Instant::now(), enc.clone()));
        crash::set_case(&enc);
        let rep = guarded(|| p.check(&case, &mut ctx.borrow_mut()));
        crash::clear_case();
        *slot.current.lock().unwrap() = None;
        let rep = match rep {
            Ok(r) => r,
            Err(pmsg) => {
                let mut r = Report::default();
                r.fail(&format!("harness-panic:{}", panic_site(&pmsg)), pmsg);
                r
            }
        };
        if counting {
            let mut st = stats.borrow_mut();
            st.evaluations += 1;
            index.set(index.get() + 1);
            if let Some(e) = rep.excluded {
                *st.excluded.entry(e.to_string()).or_default() += 1;
            }
            for c in &rep.classes {
                *st.classes.entry(c.to_string()).or_default() += 1;
            }
            if rep.nontrivial && rep.failure.is_none() {
                st.nontrivial.insert(digest(&enc));
                if st.samples_nontrivial.len() < 3 {
                    st.samples_nontrivial.push(p.sample(&case));
                }
            }
            // three samples drawn by index (fixed positions inside the shard)
            if shard < 3 && index.get() == 7 + shard as u64 * 13 {
                st.samples_indexed.push(p.sample(&case));
            }
        }
        match rep.failure {
            None => Ok(()),
            Some(f) => {
                if counting {
                    *first_fail.borrow_mut() = Some(f.clone());
                }
                Err(TestCaseError::fail(format!("{}: {}", f.clause, f.detail)))
            }
        }
    });
    let _ = std::fs::remove_dir_all(&ctx.borrow().dir);
    let failure = match result {
        Ok(()) => None,
        Err(TestError::Fail(_, value)) => {
            // re-check the shrunk value once, outside proptest, non-strict (same semantics as
            // the campaign) to obtain its failure description
            let mut ctx2 = Ctx {
                dir: scratch_dir(&format!("{}-r{}", p.id(), shard)),
                strict: false,
                tier,
            };
            let rep = guarded(|| p.check(&value, &mut ctx2));
            let _ = std::fs::remove_dir_all(&ctx2.dir);
            let f = match rep {
                Ok(r) => r.failure,
                Err(pmsg) => Some(Failure {
                    clause: format!("harness-panic:{}", panic_site(&pmsg)),
                    detail: pmsg,
                }),
            };
            let f = f.or_else(|| first_fail.borrow().clone()).unwrap_or(Failure {
                clause: "unreproducible".into(),
                detail: "shrunk case passed on re-check".into(),
            });
            Some((serde_json::to_value(&value).unwrap_or(Value::Null), f))
        }
        Err(TestError::Abort(r)) => Some((
            Value::Null,
            Failure {
                clause: "generator-abort".into(),
                detail: format!("{}", r),
            },
        )),
    };
    (stats.into_inner(), failure)
}

pub fn run_campaign<P: Property>(p: &P, tier: Tier, seed: u64) -> RunOutcome {
    let t0 = Instant::now();
    start_watchdog();
    crash::install();
    let cases = p.cases_per_shard(tier);
    let mut results: Vec<(Stats, Option<(Value, Failure)>)> = Vec::new();
    std::thread::scope(|sc| {
        let mut hs = Vec::new();
        for shard in 0..SHARDS {
            hs.push(
                std::thread::Builder::new()
                    // the stack of a main thread (8 MiB): callers of the library run on such stacks, and a larger one
                    // would hide recursion that is proportional to the input (known finding F27)
                    .stack_size(8 << 20)
                    .spawn_scoped(sc, move || run_shard(p, tier, seed, shard, cases))
                    .expect("spawn"),
            );
        }
        for h in hs {
            results.push(h.join().expect("shard thread"));
        }
    });
    let mut stats = Stats::default();
    let mut failures = Vec::new();
    for (s, f) in results {
        stats.merge(s);
        if let Some(f) = f {
            failures.push(f);
        }
    }
    // extras (single threaded context; implementations may spawn their own threads)
    let mut ctx = Ctx {
        dir: scratch_dir(&format!("{}-x", p.id())),
        strict: false,
        tier,
    };
    // a panic of the code under test inside a constructed family (they call the oracle outside the shard runner) is a
    // failure of that family, reported like any other, not a crash of the harness
    let extra_fail = match guarded(|| p.extra(tier, seed, &mut ctx, &mut stats)) {
        Ok(f) => f,
        Err(msg) => vec![(
            serde_json::json!({"constructed_family": "the property's fixed-size families (see `rule` in the evidence file); re-run the check to reproduce"}),
            Failure { clause: format!("family-panic:{}", panic_site(&msg)), detail: format!("a constructed family of {} panicked: {}", p.id(), msg) },
        )],
    };
    let _ = std::fs::remove_dir_all(&ctx.dir);
    failures.extend(extra_fail);
    RunOutcome {
        stats,
        failures,
        wall_s: t0.elapsed().as_secs_f64(),
    }
}

/// Strict re-execution of one stored case (replay files and corpus entries).
pub fn replay_case<P: Property>(p: &P, case_json: &Value, tier: Tier, strict: bool) -> Result<Report, String> {
    let case: P::Case = serde_json::from_value(case_json.clone()).map_err(|e| format!("cannot decode case: {}", e))?;
    // VERIF_REPLAY_LENIENT=1: replay with the known-finding exclusions of a campaign (to see whether a saved case
    // falls into an excluded class); the default is strict
    let strict = strict && std::env::var("VERIF_REPLAY_LENIENT").is_err();
    let mut ctx = Ctx {
        dir: scratch_dir(&format!("{}-replay", p.id())),
        strict,
        tier,
    };
    crash::install();
    crash::register_thread(p.id(), &verif_root().join("replays").join(p.id()).join("crash-replay.json"));
    let enc = serde_json::to_string(case_json).unwrap_or_default();
    crash::set_case(&enc);
    let r = guarded(|| p.check(&case, &mut ctx));
    crash::clear_case();
    let _ = std::fs::remove_dir_all(&ctx.dir);
    match r {
        Ok(rep) => Ok(rep),
        Err(pmsg) => {
            let mut rep = Report::default();
            rep.fail(&format!("harness-panic:{}", panic_site(&pmsg)), pmsg);
            Ok(rep)
        }
    }
}

pub fn write_json(path: &Path, v: &Value) {
    if let Some(d) = path.parent() {
        let _ = std::fs::create_dir_all(d);
    }
    let s = serde_json::to_string_pretty(v).unwrap();
    std::fs::write(path, s + "\n").expect("write json");
}

pub fn evidence_json<P: Property>(p: &P, tier: Tier, seed: u64, out: &RunOutcome, violations: usize, known: &[String]) -> Value {
    let st = &out.stats;
    let mut samples: Vec<Value> = Vec::new();
    samples.extend(st.samples_nontrivial.iter().cloned());
    samples.extend(st.samples_indexed.iter().cloned());
    if samples.is_empty() {
        samples.push(json!("no sample recorded"));
    }
    let mut coverage = json!({
        "evaluations": st.evaluations,
        "distinct_nontrivial": st.nontrivial.len(),
        "rule": p.rule(),
        "samples": samples,
        "classes": st.classes,
        "excluded": st.excluded,
        "exhaustive": false,
        "shards": SHARDS,
        "cases_per_shard": p.cases_per_shard(tier),
        "known_findings_reported": known,
    });
    for (k, v) in &st.extra {
        coverage[k] = v.clone();
    }
    json!({
        "property_id": p.id(),
        "tier": tier.name(),
        "seed": seed,
        "level": "exploration",
        "coverage": coverage,
        "assumptions": p.assumptions(),
        "wall_s": out.wall_s,
        "violations": violations,
    })
}

// ------------------------------------------------------------------------------------------
// crash capture: SIGSEGV / SIGBUS / SIGILL / SIGABRT raised while a case runs (misaligned or
// out-of-bounds access, non-unwinding panic, abort) would otherwise kill the check without a
// verdict. The handler writes the case that the faulting thread was running to a replay file
// with async-signal-safe calls only, prints the VIOLATION line and exits with status 1.

pub mod crash {
    use std::cell::Cell;
    use std::sync::atomic::{AtomicPtr, AtomicUsize, Ordering};

    const SLOTS: usize = 64;
    static CASE_PTR: [AtomicPtr<u8>; SLOTS] = [const { AtomicPtr::new(std::ptr::null_mut()) }; SLOTS];
    static CASE_LEN: [AtomicUsize; SLOTS] = [const { AtomicUsize::new(0) }; SLOTS];
    static PATH_PTR: [AtomicPtr<u8>; SLOTS] = [const { AtomicPtr::new(std::ptr::null_mut()) }; SLOTS];
    static PROP_PTR: AtomicPtr<u8> = AtomicPtr::new(std::ptr::null_mut());
    static PROP_LEN: AtomicUsize = AtomicUsize::new(0);
    static NEXT: AtomicUsize = AtomicUsize::new(0);

    thread_local! {
        static MY_SLOT: Cell<usize> = const { Cell::new(usize::MAX) };
    }

    /// Reserve a slot for the calling thread; `path` is where a crash of this thread is written.
    pub fn register_thread(prop: &str, path: &std::path::Path) {
        let slot = NEXT.fetch_add(1, Ordering::SeqCst) % SLOTS;
        MY_SLOT.with(|s| s.set(slot));
        if let Some(d) = path.parent() {
            let _ = std::fs::create_dir_all(d);
        }
        let c = std::ffi::CString::new(path.to_string_lossy().as_bytes()).unwrap();
        PATH_PTR[slot].store(c.into_raw() as *mut u8, Ordering::SeqCst);
        if PROP_PTR.load(Ordering::SeqCst).is_null() {
            let b = prop.as_bytes().to_vec().leak();
            PROP_LEN.store(b.len(), Ordering::SeqCst);
            PROP_PTR.store(b.as_mut_ptr(), Ordering::SeqCst);
        }
    }

    /// Publish the JSON encoding of the case about to run on this thread (must stay alive until `clear`).
    pub fn set_case(json: &str) {
        let slot = MY_SLOT.with(|s| s.get());
        if slot != usize::MAX {
            CASE_LEN[slot].store(json.len(), Ordering::SeqCst);
            CASE_PTR[slot].store(json.as_ptr() as *mut u8, Ordering::SeqCst);
        }
    }

    pub fn clear_case() {
        let slot = MY_SLOT.with(|s| s.get());
        if slot != usize::MAX {
            CASE_PTR[slot].store(std::ptr::null_mut(), Ordering::SeqCst);
            CASE_LEN[slot].store(0, Ordering::SeqCst);
        }
    }

    unsafe fn wr(fd: i32, b: &[u8]) {
        let mut off = 0;
        while off < b.len() {
            let n = libc::write(fd, b.as_ptr().add(off) as *const libc::c_void, b.len() - off);
            if n <= 0 {
                break;
            }
            off += n as usize;
        }
    }

    extern "C" fn handler(sig: i32) {
        unsafe {
            let slot = MY_SLOT.try_with(|s| s.get()).unwrap_or(usize::MAX);
            let prop = std::slice::from_raw_parts(PROP_PTR.load(Ordering::SeqCst), PROP_LEN.load(Ordering::SeqCst));
            if slot != usize::MAX && !CASE_PTR[slot].load(Ordering::SeqCst).is_null() {
                let case = std::slice::from_raw_parts(CASE_PTR[slot].load(Ordering::SeqCst), CASE_LEN[slot].load(Ordering::SeqCst));
                let path = PATH_PTR[slot].load(Ordering::SeqCst) as *const libc::c_char;
                let fd = libc::open(path, libc::O_WRONLY | libc::O_CREAT | libc::O_TRUNC, 0o644);
                if fd >= 0 {
                    wr(fd, b"{\"property\": \"");
                    wr(fd, prop);
                    wr(fd, b"\", \"clause\": \"crash-signal\", \"detail\": \"the process received a fatal signal (SIGSEGV/SIGBUS/SIGILL/SIGABRT) while running this case\", \"case\": ");
                    wr(fd, case);
                    wr(fd, b"}\n");
                    libc::close(fd);
                }
                wr(1, b"FAIL clause=crash-signal detail=fatal signal ");
                let d = [b'0' + (sig / 10) as u8, b'0' + (sig % 10) as u8];
                wr(1, &d);
                wr(1, b" while running a case\nVIOLATION property=");
                wr(1, prop);
                wr(1, b" replay=");
                wr(1, std::ffi::CStr::from_ptr(path).to_bytes());
                wr(1, b"\n");
                libc::_exit(1);
            }
            // not inside a case: harness problem, inconclusive
            wr(1, b"INCONCLUSIVE: fatal signal outside of a case\n");
            libc::_exit(2);
        }
    }

    pub fn install() {
        unsafe {
            for sig in [libc::SIGSEGV, libc::SIGBUS, libc::SIGILL, libc::SIGABRT] {
                let mut sa: libc::sigaction = std::mem::zeroed();
                sa.sa_sigaction = handler as usize;
                sa.sa_flags = libc::SA_ONSTACK;
                libc::sigemptyset(&mut sa.sa_mask);
                libc::sigaction(sig, &sa, std::ptr::null_mut());
            }
        }
    }
}

struct Timer<'a>(&'a str, std::time::Instant);
impl Drop for Timer<'_> {
    fn drop(&mut self) {
        if std::env::var("VERIF_DEBUG").is_ok() {
            eprintln!("family case {:?}: {} ms", self.0, self.1.elapsed().as_millis());
        }
    }
}

/// Runs a fixed, named family of cases (sizes on the documented limits, shapes no random draw
/// would reach) through the property's own `check`, 16 at a time; used by `Property::extra`.
pub fn run_family<P: Property + Sync>(p: &P, ctx: &Ctx, stats: &mut Stats, label: &str, fam: Vec<(String, P::Case)>) -> Vec<(Value, Failure)>
where
    P::Case: Sync,
{
    if fam.is_empty() {
        return Vec::new();
    }
    let chunk = ((fam.len() + 15) / 16).max(1);
    let results: Vec<(usize, Report)> = std::thread::scope(|sc| {
        let mut hs = Vec::new();
        for (ci, part) in fam.chunks(chunk).enumerate() {
            let dir = ctx.dir.join(format!("{}{}", label, ci));
            let tier = ctx.tier;
            hs.push(sc.spawn(move || {
                let mut c2 = Ctx { dir, strict: false, tier };
                part.iter()
                    .enumerate()
                    .map(|(i, (name, c))| {
                        let t0 = std::time::Instant::now();
                        let _t = Timer(name, t0);
                        (
                            ci * chunk + i,
                            match guarded(|| p.check(c, &mut c2)) {
                                Ok(r) => r,
                                Err(m) => {
                                    let mut r = Report::default();
                                    r.fail(&format!("harness-panic:{}", panic_site(&m)), m);
                                    r
                                }
                            },
                        )
                    })
                    .collect::<Vec<_>>()
            }));
        }
        hs.into_iter().flat_map(|h| h.join().unwrap()).collect()
    });
    let mut fails = Vec::new();
    for (i, rep) in results {
        stats.record(&format!("{}:{}", label, fam[i].0), rep.failure.is_none(), Some(label));
        for c in &rep.classes {
            *stats.classes.entry(c.to_string()).or_default() += 1;
        }
        if let Some(e) = rep.excluded {
            *stats.excluded.entry(e.to_string()).or_default() += 1;
        }
        if let Some(f) = rep.failure {
            fails.push((serde_json::to_value(&fam[i].1).unwrap(), f));
        }
    }
    stats.extra.insert(format!("{}_cases", label), serde_json::json!(fam.len()));
    stats.extra.insert(format!("{}_sample", label), serde_json::json!(fam.iter().take(4).map(|x| x.0.clone()).collect::<Vec<_>>()));
    fails
}

/// Draws `n` values from a strategy with a fixed seed (no shrinking): used by `extra` families whose
/// members are generated (large histories, large files) rather than listed.
pub fn sample_strategy<T: std::fmt::Debug>(strategy: &BoxedStrategy<T>, seed: u64, n: usize) -> Vec<T> {
    use proptest::strategy::{Strategy, ValueTree};
    let cfg = Config { rng_seed: RngSeed::Fixed(seed), failure_persistence: None, ..Config::default() };
    let mut runner = TestRunner::new(cfg);
    (0..n).filter_map(|_| strategy.new_tree(&mut runner).ok().map(|t| t.current())).collect()
}

/// Silences the process' standard output while a guard is alive (the library's debug mode prints lattice dumps
/// there). Reference counted: shards may hold guards at the same time; nothing of the harness prints to stdout
/// while a campaign runs.
pub mod quiet_stdout {
    use std::io::Write;
    use std::sync::Mutex;

    static STATE: Mutex<(usize, i32)> = Mutex::new((0, -1));

    pub struct Guard;

    pub fn enter() -> Guard {
        let mut st = STATE.lock().unwrap_or_else(|e| e.into_inner());
        if st.0 == 0 {
            let _ = std::io::stdout().flush();
            unsafe {
                let saved = libc::dup(1);
                let null = libc::open(b"/dev/null\0".as_ptr() as *const libc::c_char, libc::O_WRONLY);
                if saved >= 0 && null >= 0 {
                    libc::dup2(null, 1);
                    libc::close(null);
                    st.1 = saved;
                }
            }
        }
        st.0 += 1;
        Guard
    }

    impl Drop for Guard {
        fn drop(&mut self) {
            let mut st = STATE.lock().unwrap_or_else(|e| e.into_inner());
            st.0 -= 1;
            if st.0 == 0 && st.1 >= 0 {
                let _ = std::io::stdout().flush();
                unsafe {
                    libc::dup2(st.1, 1);
                    libc::close(st.1);
                }
                st.1 = -1;
            }
        }
    }
}

/// Runs a child to completion with a wall-clock cap. `Ok(None)` = the cap was hit and the child was killed.
pub fn status_with_timeout(cmd: &mut std::process::Command, secs: u64) -> std::io::Result<Option<std::process::ExitStatus>> {
    let mut child = cmd.spawn()?;
    let t0 = std::time::Instant::now();
    loop {
        if let Some(st) = child.try_wait()? {
            return Ok(Some(st));
        }
        if t0.elapsed().as_secs() >= secs {
            let _ = child.kill();
            let _ = child.wait();
            return Ok(None);
        }
        std::thread::sleep(std::time::Duration::from_millis(100));
    }
}
