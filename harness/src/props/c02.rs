//! C02 — the chosen segmentation is a minimum-cost lattice path (Viterbi optimality).

use crate::common::*;
use crate::engine::*;
use crate::gen::*;
use crate::model::cfg::*;
use crate::model::dic::*;
use proptest::collection::vec;
use proptest::prelude::*;
use serde::{Deserialize, Serialize};
use serde_json::{json, Value};
use std::collections::BTreeSet;
use sudachi::analysis::lattice::VerifNode;
use sudachi::analysis::node::{LatticeNode, PathCost, ResultNode, RightId};
use sudachi::analysis::stateful_tokenizer::StatefulTokenizer;
use sudachi::analysis::stateless_tokenizer::DictionaryAccess;
use sudachi::analysis::Mode;
use sudachi::dic::subset::InfoSubset;
use sudachi::input_text::InputBuffer;

#[derive(Clone, Debug, Serialize, Deserialize)]
pub struct Case {
    pub dic: DicModel,
    pub cfg: CfgModel,
    pub texts: Vec<Vec<Piece>>,
}

pub struct C02;

const INF: i64 = i64::MAX / 4;

/// (left, right, cost) triples an OOV node may carry under this configuration
fn oov_params(cfg: &CfgModel) -> BTreeSet<(u16, u16, i16)> {
    let mut s = BTreeSet::new();
    for p in &cfg.oov {
        match p {
            OovPlugin::Simple { left, right, cost, .. } | OovPlugin::Regex { left, right, cost, .. } => {
                s.insert((*left as u16, *right as u16, *cost as i16));
            }
            OovPlugin::Mecab { unkdef, .. } => {
                for line in read_src("unk.def", unkdef).lines() {
                    let c: Vec<&str> = line.trim().split(',').collect();
                    if c.len() >= 10 && !line.starts_with('#') {
                        if let (Ok(l), Ok(r), Ok(k)) = (c[1].parse::<i16>(), c[2].parse::<i16>(), c[3].parse::<i16>()) {
                            s.insert((l as u16, r as u16, k));
                        }
                    }
                }
            }
        }
    }
    s
}

impl C02 {
    fn conn(dense: &Vec<Vec<i16>>, inhibit: &BTreeSet<(u16, u16)>, l: u16, r: u16) -> i64 {
        if inhibit.contains(&(l, r)) {
            i16::MAX as i64
        } else {
            dense[l as usize][r as usize] as i64
        }
    }
}

impl Property for C02 {
    type Case = Case;
    fn id(&self) -> &'static str {
        "C02"
    }
    fn rule(&self) -> &'static str {
        "case = generated lexicons with heavy overlap (small alphabet, homographs with different ids and costs, costs incl. negative and i16 extremes, \
         0-2 user dictionaries), any matrix, optional inhibited pairs, every OOV provider stack, optional input-text plugins, no path rewriting; \
         1-4 texts of key concatenations + noise analysed in mode C with ONE reused tokenizer. Oracle: Bellman-Ford in i64 over the lattice's own \
         node set (read through the verif hook) with connection costs from the MODEL matrix and word parameters from the MODEL CSV; the returned \
         path's recomputed cost must equal the optimum, every node's stored cumulative cost must equal the reference value, every morpheme's \
         total_cost must equal the recomputed prefix sum. Non-trivial: the lattice admits complete paths of different total cost (min != max)."
    }
    fn assumptions(&self) -> Vec<&'static str> {
        vec![
            "optimality is judged over the candidate set the lattice actually holds (candidate generation is C04/C13)",
            "user-dictionary rows with cost -32768 get their cost at load time; the loaded value is used for those rows",
            "ties are accepted: only costs are compared",
        ]
    }
    fn strategy(&self, tier: Tier) -> BoxedStrategy<Case> {
        let mut dp = DicParams::small();
        dp.big_matrix = true;
        dp.alphabet = vec!["a", "b", "あ", "ア", "京", "1", "𠮷"];
        dp.max_base = tier.pick(14, 40);
        dp.max_key_chars = 3;
        dp.max_dim = tier.pick(4, 8);
        dp.square_only = false;
        let mut cp = CfgParams::full();
        cp.path_rewrite = false;
        cp.force_fallback = false;
        (world(dp, cp), vec(pieces_long(tier.pick(10, 30)), 1..=4)).prop_map(|((dic, cfg), texts)| Case { dic, cfg, texts }).boxed()
    }
    fn cases_per_shard(&self, tier: Tier) -> u32 {
        tier.pick(5000, 100000)
    }
    fn sample(&self, case: &Case) -> Value {
        let keys = all_keys(&case.dic);
        json!({
            "texts": case.texts.iter().map(|t| render_pieces(&keys, t)).collect::<Vec<_>>(),
            "matrix": case.dic.matrix.render(),
            "system": case.dic.system.iter().map(|e| format!("{}:{}/{}/{}", e.key, e.left, e.right, e.cost)).collect::<Vec<_>>(),
            "users": case.dic.users.iter().map(|u| u.iter().map(|e| format!("{}:{}/{}/{}", e.key, e.left, e.right, e.cost)).collect::<Vec<_>>()).collect::<Vec<_>>(),
            "oov": case.cfg.oov,
            "inhibit": case.cfg.inhibit,
        })
    }
    fn extra(&self, tier: Tier, _seed: u64, ctx: &mut Ctx, stats: &mut Stats) -> Vec<(Value, Failure)> {
        // one tokenizer, thousands of analyses: the same boundary index comes back after exactly 2^16 (2^17)
        // word-begin positions with another left context (see C10); every analysis is judged against the
        // reference search
        let (dic, cfg, worlds) = crate::props::c10::periodic_worlds();
        let mut fam: Vec<(String, Case)> = Vec::new();
        for (name, s1, f, m, s2) in worlds {
            if tier == Tier::Quick && m > 4096 && !name.ends_with(" 16 characters") {
                continue;
            }
            let mut texts = vec![vec![Piece::Raw(s1)]];
            texts.extend((1..m).map(|_| vec![Piece::Raw(f.clone())]));
            texts.push(vec![Piece::Raw(s2)]);
            fam.push((name, Case { dic: dic.clone(), cfg: cfg.clone(), texts }));
        }
        let mut fails = run_family(self, ctx, stats, "periodic", fam);
        // a crowded boundary: more than 2^16 lattice nodes end at the same position (back pointers are 16-bit
        // indices). 256 hiragana, grouped unknown-word candidates from every start, 260 unk.def rows per candidate:
        // 66,560 nodes end at the end of the run; every word costs -10, so the optimum is 256 one-character words
        let noun = pos_from_str(POS_NOUN);
        let chardef = "DEFAULT 0 1 0\nHIRAGANA 1 1 1\n0x3041..0x309F HIRAGANA\n".to_string();
        let mut unk = String::from("DEFAULT,0,0,100,補助記号,一般,*,*,*,*\n");
        for _ in 0..260 {
            unk.push_str("HIRAGANA,0,0,-10,名詞,普通名詞,一般,*,*,*\n");
        }
        let dic = DicModel { matrix: Matrix { nl: 1, nr: 1, lines: vec![] }, system: vec![Entry::simple("x", 0, 0, 100, &noun)], users: vec![] };
        let mut crowded: Vec<(String, Case)> = Vec::new();
        for run in [250u32, 252, 253, 256, 300] {
            let cfg = CfgModel {
                chardef: FileSrc::Text(chardef.clone()),
                input: vec![],
                oov: vec![OovPlugin::Mecab { chardef: FileSrc::Text(chardef.clone()), unkdef: FileSrc::Text(unk.clone()), user_pos: Some(true) }],
                inhibit: None,
                path: vec![],
            };
            crowded.push((format!("{} x 260 nodes ending at one boundary", run), Case { dic: dic.clone(), cfg, texts: vec![vec![Piece::Rep("あ".into(), run)]] }));
        }
        fails.extend(run_family(self, ctx, stats, "crowded-boundary", crowded));
        fails
    }
    fn check(&self, case: &Case, ctx: &mut Ctx) -> Report {
        let mut rep = Report::default();
        let (dict, _) = match build_world(&case.dic, &case.cfg, ctx) {
            Ok(x) => x,
            Err(e) => {
                if std::env::var("VERIF_DEBUG").is_ok() {
                    eprintln!("REJECT {}", e.describe());
                }
                rep.class("rejected");
                return rep;
            }
        };
        let dense = case.dic.matrix.dense();
        let inhibit: BTreeSet<(u16, u16)> = case.cfg.inhibit.clone().unwrap_or_default().iter().map(|(a, b)| (*a as u16, *b as u16)).collect();
        let oovp = oov_params(&case.cfg);
        let keys = all_keys(&case.dic);
        let mut tok = StatefulTokenizer::new(&dict, Mode::C);
        let mut inbuf = InputBuffer::new();
        let mut result: Vec<ResultNode> = Vec::new();
        let mut subset = InfoSubset::all();
        for t in &case.texts {
            let text = render_pieces(&keys, t);
            if f7_guard(&mut rep, &case.dic, &case.cfg, &text, ctx.strict) {
                continue;
            }
            tok.reset().push_str(&text);
            match tok.do_tokenize() {
                Ok(()) => {}
                Err(_) => {
                    rep.class("analysis-error");
                    continue;
                }
            }
            let lat = tok.verif_lattice();
            let n = lat.verif_len();
            if tok.verif_input().current().is_empty() {
                continue;
            }
            let mut nodes: Vec<Vec<VerifNode>> = vec![Vec::new(); n];
            for end in 1..n {
                nodes[end] = lat.verif_nodes(end);
            }
            let eos = lat.verif_eos();
            // word parameters of dictionary nodes == model
            for end in 1..n {
                for v in &nodes[end] {
                    if v.end != end || v.begin >= v.end {
                        rep.fail("lattice-shape", format!("text {:?}: node {:?} stored at boundary {}", text, v, end));
                        return rep;
                    }
                    if v.word_id.is_oov() {
                        if !oovp.contains(&(v.left_id, v.right_id, v.cost)) {
                            rep.fail("oov-params", format!("text {:?}: OOV node {:?} carries parameters no provider was configured with ({:?})", text, v, oovp));
                            return rep;
                        }
                    } else {
                        let d = v.word_id.dic() as usize;
                        let w = v.word_id.word() as usize;
                        if d >= case.dic.num_dics() || w >= case.dic.dic(d).len() {
                            rep.fail("word-id", format!("text {:?}: node {:?} names a word that does not exist", text, v));
                            return rep;
                        }
                        let e = &case.dic.dic(d)[w];
                        let slice = tok.verif_input().curr_slice_c(v.begin..v.end);
                        if slice != e.key {
                            rep.fail("candidate-text", format!("text {:?}: lattice node {:?} is the word {:?} but the normalised text there is {:?}", text, v, e.key, slice));
                            return rep;
                        }
                        let auto = d > 0 && e.cost == i16::MIN;
                        if v.left_id != e.left as u16 || v.right_id != e.right as u16 || (!auto && v.cost != e.cost) {
                            rep.fail("word-params", format!("text {:?}: node {:?} but the CSV row says {}/{}/{}", text, v, e.left, e.right, e.cost));
                            return rep;
                        }
                    }
                }
            }
            // reference DP (min and max) over the lattice's node set
            let mut best: Vec<Vec<i64>> = vec![Vec::new(); n];
            let mut worst: Vec<Vec<i64>> = vec![Vec::new(); n];
            for end in 1..n {
                for v in &nodes[end] {
                    let (mut lo, mut hi) = (INF, -INF);
                    if v.begin == 0 {
                        let c = Self::conn(&dense, &inhibit, 0, v.left_id) + v.cost as i64;
                        lo = c;
                        hi = c;
                    } else {
                        for (j, p) in nodes[v.begin].iter().enumerate() {
                            let cc = Self::conn(&dense, &inhibit, p.right_id, v.left_id) + v.cost as i64;
                            if best[v.begin][j] < INF {
                                lo = lo.min(best[v.begin][j] + cc);
                                hi = hi.max(worst[v.begin][j] + cc);
                            }
                        }
                    }
                    best[end].push(lo);
                    worst[end].push(hi);
                }
            }
            for end in 1..n {
                for (i, v) in nodes[end].iter().enumerate() {
                    let want = best[end][i];
                    let got = if v.total_cost == i32::MAX { INF } else { v.total_cost as i64 };
                    if want != got {
                        rep.fail("node-total", format!("text {:?}: node {:?} stores cumulative cost {} but the cheapest way to reach it costs {}", text, v, v.total_cost, want));
                        return rep;
                    }
                }
            }
            let (mut opt, mut pess) = (INF, -INF);
            for (i, v) in nodes[n - 1].iter().enumerate() {
                if best[n - 1][i] < INF {
                    let c = Self::conn(&dense, &inhibit, v.right_id, 0);
                    opt = opt.min(best[n - 1][i] + c);
                    pess = pess.max(worst[n - 1][i] + c);
                }
            }
            match eos {
                Some((_, c)) => {
                    if c as i64 != opt {
                        rep.fail("eos-total", format!("text {:?}: EOS cost {} but the optimum is {}", text, c, opt));
                        return rep;
                    }
                }
                None => {
                    rep.fail("eos-missing", format!("text {:?}: analysis succeeded without an EOS connection", text));
                    return rep;
                }
            }
            if opt != pess {
                rep.nontrivial = true;
            }
            // the returned path
            result.clear();
            tok.swap_result(&mut inbuf, &mut result, &mut subset);
            let mut pos = 0usize;
            let mut sum: i64 = 0;
            let mut prev_right: u16 = 0;
            let mut neg_edge = false;
            for (k, r) in result.iter().enumerate() {
                if r.begin() != pos {
                    rep.fail("path-chain", format!("text {:?}: path node {} begins at char {} but the previous one ended at {}", text, k, r.begin(), pos));
                    return rep;
                }
                let found = nodes.get(r.end()).map(|v| v.iter().any(|x| x.begin == r.begin() && x.word_id == r.word_id() && x.left_id == r.left_id() && x.right_id == r.right_id() && x.cost == r.cost())).unwrap_or(false);
                if !found {
                    rep.fail("path-node", format!("text {:?}: path node {} ({}..{} {:?}) is not a lattice node", text, k, r.begin(), r.end(), r.word_id()));
                    return rep;
                }
                let cc = Self::conn(&dense, &inhibit, prev_right, r.left_id());
                if cc < 0 {
                    neg_edge = true;
                }
                sum += cc + r.cost() as i64;
                if r.total_cost() as i64 != sum {
                    rep.fail("morpheme-total", format!("text {:?}: morpheme {} reports cumulative cost {} but the recomputed prefix sum is {}", text, k, r.total_cost(), sum));
                    return rep;
                }
                if r.word_id().is_oov() {
                    rep.class("oov-on-optimum");
                } else if r.word_id().dic() > 0 {
                    rep.class("user-word-on-optimum");
                }
                prev_right = r.right_id();
                pos = r.end();
            }
            if pos != n - 1 {
                rep.fail("path-chain", format!("text {:?}: path ends at char {} of {}", text, pos, n - 1));
                return rep;
            }
            sum += Self::conn(&dense, &inhibit, prev_right, 0);
            if sum != opt {
                rep.fail("not-optimal", format!("text {:?}: the returned path costs {} but a path of cost {} exists in the lattice", text, sum, opt));
                return rep;
            }
            if neg_edge {
                rep.class("negative-edge-on-optimum");
            }
            // give the buffers back so that the tokenizer is reused exactly like a MorphemeList does
            tok.swap_result(&mut inbuf, &mut result, &mut subset);
        }
        // morpheme-level accessors on a fresh analysis of the first text
        if let Some(t) = case.texts.first() {
            let text = render_pieces(&keys, t);
            if f7_guard(&mut rep, &case.dic, &case.cfg, &text, ctx.strict) {
                return rep;
            }
            if let Ok(ml) = analyze(&dict, &text, Mode::C, None) {
                if !ml.is_empty() {
                    let first = ml.get(0).total_cost() as i64;
                    let last = ml.get(ml.len() - 1).total_cost() as i64;
                    if last - first >= i32::MIN as i64 && last - first <= i32::MAX as i64 && ml.get_internal_cost() as i64 != last - first {
                        rep.fail("internal-cost", format!("text {:?}: get_internal_cost {} != {}", text, ml.get_internal_cost(), last - first));
                    }
                }
            }
        }
        let _ = dict.grammar();
        rep
    }
}

/// reproducers of recorded findings (written by `vcheck fixtures`)
pub fn fixtures() -> Vec<(&'static str, Case, &'static str)> {
    let noun = pos_from_str(POS_NOUN);
    let chardef = "DEFAULT 0 1 0\nHIRAGANA 1 1 1\n0x3041..0x309F HIRAGANA\n".to_string();
    let mut unk = String::from("DEFAULT,0,0,100,補助記号,一般,*,*,*,*\n");
    for _ in 0..260 {
        unk.push_str("HIRAGANA,0,0,-10,名詞,普通名詞,一般,*,*,*\n");
    }
    let dic = DicModel { matrix: Matrix { nl: 1, nr: 1, lines: vec![] }, system: vec![Entry::simple("x", 0, 0, 100, &noun)], users: vec![] };
    let cfg = CfgModel {
        chardef: FileSrc::Text(chardef.clone()),
        input: vec![],
        oov: vec![OovPlugin::Mecab { chardef: FileSrc::Text(chardef), unkdef: FileSrc::Text(unk), user_pos: Some(true) }],
        inhibit: None,
        path: vec![],
    };
    vec![(
        "f25-more-than-65535-nodes-at-one-boundary.json",
        Case { dic, cfg, texts: vec![vec![Piece::Rep("あ".into(), 256)]] },
        "F25: 256 hiragana with grouped unknown-word candidates from every start and 260 unk.def rows put 66,560 lattice nodes at the end of the run; the back pointer of the best predecessor (index 66,300) was narrowed to 16 bits and named another node: the returned path (3 morphemes, cost -30) was not the optimum the lattice had computed (256 morphemes, cost -2560)",
    )]
}
