//! C10 — results do not depend on what a tokenizer or result list processed before.

use crate::common::*;
use crate::engine::*;
use crate::gen::*;
use crate::model::cfg::CfgModel;
use crate::model::dic::*;
use proptest::collection::vec;
use proptest::prelude::*;
use serde::{Deserialize, Serialize};
use serde_json::{json, Value};
use sudachi::analysis::stateful_tokenizer::StatefulTokenizer;
use sudachi::analysis::Mode;
use sudachi::dic::subset::InfoSubset;
use sudachi::prelude::MorphemeList;

#[derive(Clone, Debug, Serialize, Deserialize)]
pub enum Op {
    SetMode(u8),
    SetSubset(u16),
    /// analyse a text; collect into the reused list (true) or leave the result in the tokenizer
    Analyse(Vec<Piece>, bool),
    /// input longer than the 49,149 byte limit (rejected)
    Oversized(u16),
    Empty,
    /// legal input whose normalised form exceeds 65,535 bytes (rejected when NFKC normalisation is configured)
    Expanding,
    /// long legal input (thousands of characters)
    Long(u16),
    /// split morpheme i of the reused list into the spare list
    SplitInto(u8, u8),
    /// exact-surface lookup on the reused list
    Lookup(u16),
    /// analyse a text and collect it into the SPARE list (the one on-demand splits were written to, which
    /// shares the text of the reused list since then): the reused list must still report what it held
    AnalyseIntoSpare(Vec<Piece>),
    /// switch the debug flag of the aged tokenizer (lattice / path dumps on standard output); results must not change
    SetDebug(bool),
}

#[derive(Clone, Debug, Serialize, Deserialize)]
pub struct Case {
    pub dic: DicModel,
    pub cfg: CfgModel,
    pub ops: Vec<Op>,
    pub probe: Vec<Piece>,
}

pub struct C10;

const NEED: u16 = 13; // SURFACE | POS_ID | NORMALIZED_FORM

fn op(maxp: usize) -> BoxedStrategy<Op> {
    prop_oneof![
        3 => (0u8..3).prop_map(Op::SetMode),
        3 => (0u16..1024).prop_map(Op::SetSubset),
        8 => (pieces_long(maxp), prop::bool::weighted(0.8)).prop_map(|(p, c)| Op::Analyse(p, c)),
        1 => (0u16..800).prop_map(Op::Oversized),
        1 => Just(Op::Empty),
        1 => Just(Op::Expanding),
        1 => (200u16..3000).prop_map(Op::Long),
        2 => (any::<u8>(), 0u8..2).prop_map(|(i, m)| Op::SplitInto(i, m)),
        2 => any::<u16>().prop_map(Op::Lookup),
        2 => pieces(maxp).prop_map(Op::AnalyseIntoSpare),
        1 => prop::bool::weighted(0.7).prop_map(Op::SetDebug),
    ]
    .boxed()
}

type Obs = Vec<(usize, usize, u32, i32, Vec<String>)>;

fn observe(ml: &MList, s: InfoSubset) -> Obs {
    let mut v = Vec::new();
    for m in ml.iter() {
        let wi = m.get_word_info();
        let mut f = Vec::new();
        if s.contains(InfoSubset::SURFACE) {
            f.push(wi.surface().to_string());
        }
        if s.contains(InfoSubset::HEAD_WORD_LENGTH) {
            f.push(wi.head_word_length().to_string());
        }
        if s.contains(InfoSubset::POS_ID) {
            f.push(format!("{:?}", m.part_of_speech()));
        }
        if s.contains(InfoSubset::NORMALIZED_FORM) {
            f.push(m.normalized_form().to_string());
        }
        if s.contains(InfoSubset::DIC_FORM_WORD_ID) {
            f.push(format!("{}|{}", wi.dictionary_form_word_id(), m.dictionary_form()));
        }
        if s.contains(InfoSubset::READING_FORM) {
            f.push(m.reading_form().to_string());
        }
        if s.contains(InfoSubset::SPLIT_A) {
            f.push(format!("{:?}", wi.a_unit_split()));
        }
        if s.contains(InfoSubset::SPLIT_B) {
            f.push(format!("{:?}", wi.b_unit_split()));
        }
        if s.contains(InfoSubset::WORD_STRUCTURE) {
            f.push(format!("{:?}", wi.word_structure()));
        }
        if s.contains(InfoSubset::SYNONYM_GROUP_ID) {
            f.push(format!("{:?}", m.synonym_group_ids()));
        }
        f.push(m.surface().to_string());
        f.push(format!("{}..{}", m.begin_c(), m.end_c()));
        v.push((m.begin(), m.end(), m.word_id().as_raw(), m.total_cost(), f));
    }
    v
}

/// Periodic workloads: (dictionary, configuration, [(name, first text, filler text, number of analyses before the
/// probe, probe text)]). The connection id 2 is carried by the word "a" only, so it is looked up once per period.
pub fn periodic_worlds() -> (DicModel, CfgModel, Vec<(String, String, String, usize, String)>) {
    let (num, noun, sym) = (pos_from_str(POS_NUM), pos_from_str(POS_NOUN), pos_from_str(POS_SYM));
    let dic = DicModel {
        matrix: Matrix { nl: 3, nr: 3, lines: vec![(0, 0, 10), (0, 1, -20), (1, 0, 300), (1, 1, 5), (0, 2, 70), (2, 0, 40), (1, 2, 900), (2, 1, 33), (2, 2, 1)] },
        system: vec![Entry::simple("1", 0, 0, 500, &num), Entry::simple("。", 1, 1, 100, &sym), Entry::simple("a", 2, 2, 700, &noun)],
        users: vec![],
    };
    let cfg = CfgModel {
        chardef: crate::model::cfg::FileSrc::Shipped,
        input: vec![],
        oov: vec![crate::model::cfg::OovPlugin::Simple { pos: sym.clone(), left: 0, right: 1, cost: 3000, user_pos: Some(true) }],
        inhibit: None,
        path: vec![],
    };
    let mut v = Vec::new();
    for g in [16usize, 32, 64] {
        for l in g - 2..=g + 2 {
            for wraps in [1usize, 2] {
                let m = 65536 / g * wraps;
                let at = l / 2;
                let s1 = format!("{}a{}", "1".repeat(at), "1".repeat(l - at - 1));
                let s2 = format!("{}a{}", "。".repeat(at), "。".repeat(l - at - 1));
                v.push((format!("period {} x {} characters", m, l), s1, "1".repeat(l), m, s2));
            }
        }
    }
    (dic, cfg, v)
}

impl Property for C10 {
    type Case = Case;
    fn id(&self) -> &'static str {
        "C10"
    }
    fn rule(&self) -> &'static str {
        "case = generated dictionary + rich configuration, a history of 0-12 (thorough 0-40) operations {set_mode, set_subset, analyse+collect into the reused list, \
         analyse without collecting, oversized input (rejected), empty input, input whose normalised form is too long (rejected), long input (200-3000 characters), \
         on-demand split into a spare list, exact lookup on the reused list} and a probe text. After EVERY analysing operation, and for the final probe, the aged \
         tokenizer + reused list must report exactly what a freshly created tokenizer with the same mode and field request reports: error or success, morpheme count, \
         byte and code-point ranges, word ids, cumulative costs, surfaces and every requested field (subsets contain surface, POS and normalised form whenever \
         path-rewrite plugins are configured). Non-trivial: the history contains a longer text before a shorter one, a failed analysis, or a mode change."
    }
    fn strategy(&self, tier: Tier) -> BoxedStrategy<Case> {
        let dp = DicParams::small();
        let maxp = tier.pick(10, 24);
        (world(dp, CfgParams::full()), vec(op(maxp), 0..=tier.pick(12, 40)), pieces(maxp)).prop_map(|((dic, cfg), ops, probe)| Case { dic, cfg, ops, probe }).boxed()
    }
    fn cases_per_shard(&self, tier: Tier) -> u32 {
        tier.pick(3000, 60000)
    }
    fn extra(&self, tier: Tier, seed: u64, ctx: &mut Ctx, stats: &mut Stats) -> Vec<(Value, Failure)> {
        // long-lived tokenizers: histories of thousands of analyses on one tokenizer (more than 2^16 /
        // 2^17 word-begin positions over its lifetime), every one compared with a fresh tokenizer
        let dp = DicParams::small();
        let n_ops = tier.pick(2500usize, 10000usize);
        let st = (world(dp, CfgParams::full()), vec(op(24), n_ops..=n_ops + 200), pieces(10)).prop_map(|((dic, cfg), ops, probe)| Case { dic, cfg, ops, probe }).boxed();
        let fam: Vec<(String, Case)> = sample_strategy(&st, splitmix(seed ^ 0xC10), tier.pick(16, 64)).into_iter().enumerate().map(|(i, c)| (format!("marathon {} ({} operations)", i, c.ops.len()), c)).collect();
        let mut fails = run_family(self, ctx, stats, "marathon", fam);
        // periodic workloads: the same boundary index is reached again after exactly 2^16 (2^17) word-begin
        // positions of equally long filler texts, with another left context. Wrapping stamps / generation
        // counters of per-position caches only show then. The number of positions one analysis of an
        // L-character text consumes is not assumed: L runs over g-2..g+2 for g = 16, 32, 64.
        let (dic, cfg, worlds) = periodic_worlds();
        let mut fam: Vec<(String, Case)> = Vec::new();
        for (name, s1, f, m, s2) in worlds {
            let mut ops = vec![Op::Analyse(vec![Piece::Raw(s1)], true)];
            ops.extend((1..m).map(|_| Op::Analyse(vec![Piece::Raw(f.clone())], true)));
            fam.push((name, Case { dic: dic.clone(), cfg: cfg.clone(), ops, probe: vec![Piece::Raw(s2)] }));
        }
        if tier == Tier::Quick {
            fam.retain(|(n, _)| !n.starts_with("period 8192") || n.ends_with(" 16 characters"));
        }
        fails.extend(run_family(self, ctx, stats, "periodic", fam));
        fails
    }
    fn sample(&self, case: &Case) -> Value {
        let keys = all_keys(&case.dic);
        let ops: Vec<Value> = case
            .ops
            .iter()
            .map(|o| match o {
                Op::Analyse(p, c) => json!({"analyse": render_pieces(&keys, p), "collect": c}),
                other => serde_json::to_value(other).unwrap(),
            })
            .collect();
        json!({"ops": ops, "probe": render_pieces(&keys, &case.probe), "input_plugins": case.cfg.input, "path_plugins": case.cfg.path})
    }
    fn check(&self, case: &Case, ctx: &mut Ctx) -> Report {
        let mut rep = Report::default();
        let (dict, _) = match build_world(&case.dic, &case.cfg, ctx) {
            Ok(x) => x,
            Err(_) => {
                rep.class("rejected");
                return rep;
            }
        };
        let keys = all_keys(&case.dic);
        let force = if case.cfg.path.is_empty() { 0 } else { NEED };
        let mut mode = Mode::C;
        let mut subset: Option<InfoSubset> = None;
        let mut tok = StatefulTokenizer::new(&dict, mode);
        let mut list = MorphemeList::empty(&dict);
        let mut spare = MorphemeList::empty(&dict);
        let mut prev_len = 0usize;
        let (mut saw_longer_first, mut saw_fail, mut saw_mode) = (false, false, false);

        // compares one analysis on the aged pair with a fresh pair
        let mut compare = |rep: &mut Report, tok: &mut StatefulTokenizer<&Dict>, list: &mut MorphemeList<&Dict>, text: &str, mode: Mode, subset: Option<InfoSubset>, collect: bool, what: &str| -> Option<bool> {
            let aged = match guarded(|| {
                tok.reset().push_str(text);
                tok.do_tokenize()
            }) {
                Ok(r) => r,
                Err(p) => {
                    rep.fail(&format!("aged-panic:{}", panic_site(&p)), format!("{} {:?}: the aged tokenizer panics: {}", what, crate::driver::truncate(text, 60), p));
                    return None;
                }
            };
            let mut fresh_tok = StatefulTokenizer::new(&dict, mode);
            if let Some(s) = subset {
                fresh_tok.set_subset(s);
            }
            fresh_tok.reset().push_str(text);
            let fresh = fresh_tok.do_tokenize();
            let short = crate::driver::truncate(text, 60);
            match (&aged, &fresh) {
                (Err(a), Err(f)) => {
                    if err_kind(root_err(a)) != err_kind(root_err(f)) {
                        rep.fail("error-differs", format!("{} {:?}: aged tokenizer fails with {}, fresh one with {}", what, short, a, f));
                    }
                    return Some(false);
                }
                (Ok(()), Err(f)) => {
                    rep.fail("aged-ok-fresh-err", format!("{} {:?}: aged tokenizer succeeds, a fresh one fails with {}", what, short, f));
                    return None;
                }
                (Err(a), Ok(())) => {
                    rep.fail("aged-err-fresh-ok", format!("{} {:?}: a fresh tokenizer succeeds, the aged one fails with {}", what, short, a));
                    return None;
                }
                (Ok(()), Ok(())) => {}
            }
            if !collect {
                return Some(true);
            }
            if list.collect_results(tok).is_err() {
                rep.fail("collect", format!("{}: collect_results failed", what));
                return None;
            }
            let mut fl = MorphemeList::empty(&dict);
            let _ = fl.collect_results(&mut fresh_tok);
            let s = subset.map(|x| x.normalize()).unwrap_or(InfoSubset::all());
            let (a, f) = match guarded(|| (observe(list, s), observe(&fl, s))) {
                Ok(x) => x,
                Err(p) => {
                    rep.fail(&format!("aged-read-panic:{}", panic_site(&p)), format!("{} {:?}: reading the morphemes of the reused list panics: {}", what, short, p));
                    return None;
                }
            };
            if a != f {
                let k = a.iter().zip(f.iter()).position(|(x, y)| x != y).unwrap_or(a.len().min(f.len()));
                rep.fail(
                    "history-dependent",
                    format!("{} {:?} mode {} subset {:?}: {} morphemes on the aged tokenizer, {} on a fresh one; first difference at {}: {:?} vs {:?}", what, short, mode_name(mode), subset, a.len(), f.len(), k, a.get(k), f.get(k)),
                );
                return None;
            }
            if &*list.surface() != text {
                rep.fail("list-surface", format!("{}: reused list reports another input text", what));
                return None;
            }
            Some(true)
        };

        let _quiet = if case.ops.iter().any(|o| matches!(o, Op::SetDebug(true))) { Some(crate::engine::quiet_stdout::enter()) } else { None };
        for (oi, o) in case.ops.iter().enumerate() {
            let what = format!("op {}", oi);
            match o {
                Op::SetMode(m) => {
                    mode = mode_of(*m);
                    tok.set_mode(mode);
                    saw_mode = true;
                }
                Op::SetSubset(s) => {
                    let s = InfoSubset::from_bits_truncate((*s | force) as u32);
                    subset = Some(s);
                    tok.set_subset(s);
                }
                Op::SetDebug(d) => {
                    tok.set_debug(*d);
                    rep.class("history switches the debug flag");
                }
                Op::Analyse(p, collect) => {
                    let text = render_pieces(&keys, p);
                    if f7_guard(&mut rep, &case.dic, &case.cfg, &text, ctx.strict) {
                        continue;
                    }
                    if text.len() < prev_len {
                        saw_longer_first = true;
                    }
                    prev_len = text.len();
                    match compare(&mut rep, &mut tok, &mut list, &text, mode, subset, *collect, &what) {
                        None => return rep,
                        Some(false) => saw_fail = true,
                        Some(true) => {}
                    }
                }
                Op::Oversized(n) => {
                    let text = "あ".repeat(16_384 + *n as usize);
                    prev_len = text.len();
                    match compare(&mut rep, &mut tok, &mut list, &text, mode, subset, true, &what) {
                        None => return rep,
                        Some(false) => saw_fail = true,
                        Some(true) => {
                            rep.fail("oversized-accepted", format!("{}: input of {} bytes accepted", what, text.len()));
                            return rep;
                        }
                    }
                }
                Op::Empty => {
                    if compare(&mut rep, &mut tok, &mut list, "", mode, subset, true, &what).is_none() {
                        return rep;
                    }
                    prev_len = 0;
                }
                Op::Expanding => {
                    let text = "ﷺ".repeat(2100);
                    prev_len = text.len();
                    match compare(&mut rep, &mut tok, &mut list, &text, mode, subset, true, &what) {
                        None => return rep,
                        Some(false) => saw_fail = true,
                        Some(true) => {}
                    }
                }
                Op::Long(n) => {
                    // a dump of thousands of lattice positions costs seconds: long texts run without the debug flag
                    tok.set_debug(false);
                    let unit = if keys.is_empty() { "a".to_string() } else { format!("{}。", keys[oi % keys.len()]) };
                    let mut text = String::new();
                    while text.chars().count() < *n as usize {
                        text.push_str(&unit);
                        text.push('x');
                    }
                    if f7_guard(&mut rep, &case.dic, &case.cfg, &text, ctx.strict) {
                        continue;
                    }
                    prev_len = text.len();
                    match compare(&mut rep, &mut tok, &mut list, &text, mode, subset, true, &what) {
                        None => return rep,
                        Some(false) => saw_fail = true,
                        Some(true) => {}
                    }
                }
                Op::SplitInto(i, m) => {
                    if !list.is_empty() {
                        let idx = *i as usize % list.len();
                        let sm = if *m == 0 { Mode::A } else { Mode::B };
                        let _ = list.get(idx).split_into(sm, &mut spare);
                        if spare.len() > 64 {
                            spare.clear();
                        }
                    }
                }
                Op::AnalyseIntoSpare(p) => {
                    let text = render_pieces(&keys, p);
                    if f7_guard(&mut rep, &case.dic, &case.cfg, &text, ctx.strict) {
                        continue;
                    }
                    let sn = subset.map(|x| x.normalize()).unwrap_or(InfoSubset::all());
                    let r = guarded(|| {
                        let before = (observe(&list, sn), list.surface().to_string());
                        tok.reset().push_str(&text);
                        if tok.do_tokenize().is_ok() && spare.collect_results(&mut tok).is_ok() {
                            let after = (observe(&list, sn), list.surface().to_string());
                            if before != after {
                                return Err(format!("collecting the analysis of {:?} into the spare list changed the reused list: text {:?} -> {:?}, {} -> {} morphemes", crate::driver::truncate(&text, 40), crate::driver::truncate(&before.1, 40), crate::driver::truncate(&after.1, 40), before.0.len(), after.0.len()));
                            }
                        }
                        Ok(())
                    });
                    match r {
                        Ok(Ok(())) => {}
                        Ok(Err(d)) => {
                            rep.fail("entangled-lists", format!("{}: {}", what, d));
                            return rep;
                        }
                        Err(pm) => {
                            rep.fail(&format!("entangled-panic:{}", panic_site(&pm)), format!("{}: reading the reused list after the spare list was used as a result list: {}", what, pm));
                            return rep;
                        }
                    }
                }
                Op::Lookup(q) => {
                    if !keys.is_empty() {
                        // exact lookup on the reused list, then on-demand splits of what it found: everything must
                        // equal the same calls on a fresh list (the list keeps a field request of its own)
                        // every fourth lookup asks for the text the list holds right now (its own last analysis)
                        let held = list.surface().to_string();
                        let query = if *q % 4 == 0 && !held.is_empty() && held.len() < 200 { held } else { keys[ix(*q, keys.len())].clone() };
                        let s = subset.unwrap_or(InfoSubset::all());
                        list.clear();
                        let mut fresh = MorphemeList::empty(&dict);
                        let r = guarded(|| {
                            let a = list.lookup(&query, s).map_err(|e| e.to_string());
                            let f = fresh.lookup(&query, s).map_err(|e| e.to_string());
                            if a.is_err() != f.is_err() {
                                return Err(format!("lookup({:?}) on the reused list gives {:?}, on a fresh list {:?}", query, a, f));
                            }
                            let sn = s.normalize();
                            let (oa, of) = (observe(&list, sn), observe(&fresh, sn));
                            if oa != of {
                                return Err(format!("lookup({:?}) subset {:?}: reused list {:?}, fresh list {:?}", query, s, oa, of));
                            }
                            for i in 0..list.len() {
                                for sm in [Mode::A, Mode::B] {
                                    let mut sa = MorphemeList::empty(&dict);
                                    let mut sf = MorphemeList::empty(&dict);
                                    let da = list.get(i).split_into(sm, &mut sa).map_err(|e| e.to_string());
                                    let df = fresh.get(i).split_into(sm, &mut sf).map_err(|e| e.to_string());
                                    if da != df {
                                        return Err(format!("lookup({:?}) entry {} split {}: reused list says {:?}, fresh list {:?}", query, i, mode_name(sm), da, df));
                                    }
                                    let (xa, xf) = (observe(&sa, sn), observe(&sf, sn));
                                    if xa != xf {
                                        return Err(format!("lookup({:?}) subset {:?} entry {} split {}: pieces from the reused list {:?}, from a fresh list {:?}", query, s, i, mode_name(sm), xa, xf));
                                    }
                                }
                            }
                            Ok(())
                        });
                        match r {
                            Ok(Ok(())) => {}
                            Ok(Err(d)) => {
                                rep.fail("lookup-history-dependent", format!("{}: {}", what, d));
                                return rep;
                            }
                            Err(p) => {
                                rep.fail(&format!("lookup-panic:{}", panic_site(&p)), format!("{}: lookup / split on the reused list: {}", what, p));
                                return rep;
                            }
                        }
                    }
                }
            }
        }
        let probe = render_pieces(&keys, &case.probe);
        if f7_guard(&mut rep, &case.dic, &case.cfg, &probe, ctx.strict) {
            return rep;
        }
        if probe.len() < prev_len {
            saw_longer_first = true;
        }
        if compare(&mut rep, &mut tok, &mut list, &probe, mode, subset, true, "probe").is_none() {
            return rep;
        }
        if saw_longer_first || saw_fail || saw_mode {
            rep.nontrivial = true;
        }
        if saw_fail {
            rep.class("history with a failed analysis");
        }
        if saw_longer_first {
            rep.class("longer text before a shorter one");
        }
        if saw_mode {
            rep.class("mode change");
        }
        rep
    }
}

/// reproducers of recorded findings (written by `vcheck fixtures`)
pub fn fixtures() -> Vec<(&'static str, Case, &'static str)> {
    let noun = pos_from_str(POS_NOUN);
    let mut a = Entry::simple("東京", 0, 0, 100, &noun);
    a.reading = "トウキョウ".into();
    let mut b = Entry::simple("都", 0, 0, 100, &noun);
    b.reading = "ト".into();
    let mut c = Entry::simple("東京都", 0, 0, 100, &noun);
    c.reading = "トウキョウト".into();
    c.mode = 'C';
    c.split_a = vec![WRef::Sys(0), WRef::Sys(1)];
    let dic = DicModel { matrix: Matrix { nl: 1, nr: 1, lines: vec![] }, system: vec![a, b, c], users: vec![] };
    let cfg = CfgModel::minimal(&noun);
    let entangled = (
        "f26-split-output-list-reused-as-result-list.json",
        Case {
            dic: dic.clone(),
            cfg: cfg.clone(),
            // 東京都 analysed into the list, its A units written to the spare list (which shares the list's text from
            // then on), a shorter text collected into the spare list: the first list must still hold 東京都
            ops: vec![Op::Analyse(vec![Piece::Raw("東京都".into())], true), Op::SplitInto(0, 0), Op::AnalyseIntoSpare(vec![Piece::Raw("都".into())])],
            probe: vec![Piece::Raw("都".into())],
        },
        "F26: the output list of split_into shares the input text of its source list; collect_results (or lookup) on it replaced that text in place, so the source list reported the other text under its old nodes (wrong surface / offsets, or a panic on a character boundary). Python: tokenize(t2, out=ms[0].split(A))",
    );
    vec![entangled, (
        "f24-lookup-keeps-stale-field-request.json",
        Case {
            dic,
            cfg,
            // field request {surface}, an analysis collected into the list, field request {everything}, exact lookup of 東京都
            ops: vec![Op::SetSubset(1), Op::Analyse(vec![Piece::Raw("都".into())], true), Op::SetSubset(1023), Op::Lookup(0xffff)],
            probe: vec![Piece::Raw("都".into())],
        },
        "F24: MorphemeList::lookup(query, subset) did not record `subset` as the list's field request; on-demand splits of the entries it found were loaded with the request of the list's previous collect (here: surface only, so the pieces of 東京都 had no reading / part of speech), unlike the same calls on a fresh list",
    )]
}
