//! C09 — modes A and B refine mode C with exactly the dictionary's split units.

use crate::common::*;
use crate::engine::*;
use crate::gen::*;
use crate::model::cfg::CfgModel;
use crate::model::dic::*;
use proptest::collection::vec;
use proptest::prelude::*;
use serde::{Deserialize, Serialize};
use serde_json::{json, Value};
use std::collections::BTreeSet;
use sudachi::analysis::Mode;
use sudachi::dic::word_id::WordId;
use sudachi::prelude::MorphemeList;

#[derive(Clone, Debug, Serialize, Deserialize)]
pub struct Case {
    pub dic: DicModel,
    pub cfg: CfgModel,
    pub texts: Vec<Vec<Piece>>,
    /// field subset requested for the direct A / B analyses (None: everything); the C analysis that is
    /// split on demand always loads everything
    #[serde(default)]
    pub subset: Option<u16>,
}

pub struct C09;

type Tok = (usize, usize, WordId);

fn toks(ml: &MList) -> Vec<Tok> {
    ml.iter().map(|m| (m.begin(), m.end(), m.word_id())).collect()
}

fn bounds(t: &[Tok]) -> BTreeSet<usize> {
    let mut s = BTreeSet::new();
    for (b, e, _) in t {
        s.insert(*b);
        s.insert(*e);
    }
    s
}

impl Property for C09 {
    type Case = Case;
    fn id(&self) -> &'static str {
        "C09"
    }
    fn rule(&self) -> &'static str {
        "case = generated lexicons whose compounds are well formed (unit keys concatenate to the key; 2-3 units, nested compounds, units of different byte widths, arrays of 31-127 units; the direct A / B analyses run with a random field subset in half of the cases; \
         system->system, user->system, user->user references written as numbers, U-numbers or inline) x configuration (input-text plugins so that original and \
         normalised lengths differ, any OOV stack) x 1-4 texts containing compounds also in pre-normalised spellings. The text is analysed in C, A and B: boundaries(C) \
         must be included in boundaries(A) and (B); a C token whose word declares no unit must reappear unchanged; a C token whose word declares >= 2 units must be \
         replaced by exactly those words (model-resolved ids) in order, partitioning its range; split_into must give the same pieces, and report false leaving the \
         output untouched for words without units. A second pass with the path-rewrite plugins on checks boundary inclusion only. Non-trivial: a split C token whose \
         original and normalised byte lengths differ or whose units have different byte widths."
    }
    fn strategy(&self, tier: Tier) -> BoxedStrategy<Case> {
        let mut dp = DicParams::small();
        dp.max_compound = tier.pick(5, 10);
        dp.max_base = tier.pick(8, 20);
        dp.alphabet = vec!["a", "b", "c", "1", "あ", "ア", "京", "都", "𠮷", "é"];
        dp.max_key_chars = 2;
        let cp = CfgParams::full();
        (world(dp, cp), vec(pieces_long(tier.pick(8, 24)), 1..=4), prop::option::weighted(0.5, 0u16..1024)).prop_map(|((dic, cfg), texts, subset)| Case { dic, cfg, texts, subset }).boxed()
    }
    fn cases_per_shard(&self, tier: Tier) -> u32 {
        tier.pick(5000, 100000)
    }
    fn sample(&self, case: &Case) -> Value {
        let keys = all_keys(&case.dic);
        json!({
            "texts": case.texts.iter().map(|t| render_pieces(&keys, t)).collect::<Vec<_>>(),
            "system_csv": render_csv(&case.dic.system),
            "user_csv": case.dic.users.iter().map(|u| render_csv(u)).collect::<Vec<_>>(),
            "input_plugins": case.cfg.input,
        })
    }
    fn check(&self, case: &Case, ctx: &mut Ctx) -> Report {
        let mut rep = Report::default();
        // main pass: no path rewriting
        let mut cfg0 = case.cfg.clone();
        cfg0.path.clear();
        let keys = all_keys(&case.dic);
        for (pass, cfg) in [(0, &cfg0), (1, &case.cfg)] {
            if pass == 1 && case.cfg.path.is_empty() {
                break;
            }
            let (dict, _) = match build_world(&case.dic, cfg, ctx) {
                Ok(x) => x,
                Err(_) => {
                    rep.class("rejected");
                    return rep;
                }
            };
            for t in &case.texts {
                let text = render_pieces(&keys, t);
                if f7_guard(&mut rep, &case.dic, cfg, &text, ctx.strict) {
                    continue;
                }
                // path-rewrite plugins read fields of their own (C11 speaks about configurations without them): the
                // second pass always loads everything
                let sub = if pass == 1 { None } else { case.subset.map(|b| sudachi::dic::subset::InfoSubset::from_bits_truncate(b as u32)) };
                let (mc, ma, mb) = match (analyze(&dict, &text, Mode::C, None), analyze(&dict, &text, Mode::A, sub), analyze(&dict, &text, Mode::B, sub)) {
                    (Ok(c), Ok(a), Ok(b)) => (c, a, b),
                    (Err(_), Err(_), Err(_)) => continue,
                    _ => {
                        rep.fail("mode-dependent-error", format!("text {:?}: analysis fails in some modes only", text));
                        return rep;
                    }
                };
                let (tc, ta, tb) = (toks(&mc), toks(&ma), toks(&mb));
                let bc = bounds(&tc);
                for (name, tm) in [("A", &ta), ("B", &tb)] {
                    if !bc.is_subset(&bounds(tm)) {
                        rep.fail("boundary-inclusion", format!("text {:?} (pass {}): boundaries of C {:?} are not all boundaries of {} {:?}", text, pass, tc, name, tm));
                        return rep;
                    }
                }
                if pass == 1 {
                    continue;
                }
                let norm = normalized_text(&dict, &text).unwrap_or_default();
                let mut out = MorphemeList::empty(&dict);
                // order-based alignment: the finer path is the C path with every token replaced by its
                // declared units (>= 2) or kept; cursor[k] walks the A (k = 0) and B (k = 1) lists
                let mut cursor = [0usize; 2];
                for (i, (b, e, w)) in tc.iter().enumerate() {
                    for (mi, (mode, mname, tm)) in [(Mode::A, "A", &ta), (Mode::B, "B", &tb)].into_iter().enumerate() {
                        let inside: Vec<Tok> = Vec::new();
                        // tokens of the finer analysis lying inside the C token (empty ranges at the edges are attributed by order)
                        let units: Vec<WordId> = if w.is_oov() || w.dic() as usize >= case.dic.num_dics() {
                            vec![]
                        } else {
                            let d = w.dic() as usize;
                            let entry = &case.dic.dic(d)[w.word() as usize];
                            let refs = if mode == Mode::A { &entry.split_a } else { &entry.split_b };
                            refs.iter().filter_map(|r| case.dic.resolve(d, r)).map(|(dd, n)| WordId::new(dd as u8, n)).collect()
                        };
                        // on-demand split
                        out.clear();
                        // pre-fill the output list so that "untouched" is observable
                        let _ = mc.get(0).split_into(mode, &mut out);
                        let before = toks_of(&out);
                        let r = mc.get(i).split_into(mode, &mut out);
                        match r {
                            Ok(did) => {
                                let after = toks_of(&out);
                                if units.is_empty() {
                                    if did || after != before {
                                        rep.fail("split-into-none", format!("text {:?}: C token {} ({:?}) declares no {} units but split_into returned {} / changed the output list", text, i, w, mname, did));
                                        return rep;
                                    }
                                } else if units.len() >= 2 {
                                    let added: Vec<Tok> = after[before.len().min(after.len())..].to_vec();
                                    if !did || added.iter().map(|x| x.2).collect::<Vec<_>>() != units {
                                        rep.fail("split-into-units", format!("text {:?}: C token {} ({:?}) declares {} units {:?} but split_into gave {:?}", text, i, w, mname, units, added));
                                        return rep;
                                    }
                                    // same pieces as direct tokenisation
                                    let direct: Vec<Tok> = tm.iter().skip(cursor[mi]).take(units.len()).cloned().collect();
                                    if direct != added {
                                        rep.fail("split-into-vs-direct", format!("text {:?}: C token {} split on demand {:?} but mode {} gives {:?}", text, i, added, mname, direct));
                                        return rep;
                                    }
                                }
                            }
                            Err(er) => {
                                rep.fail("split-into-error", format!("text {:?}: {}", text, er));
                                return rep;
                            }
                        }
                        let take = if units.len() >= 2 { units.len() } else { 1 };
                        let direct_all: Vec<Tok> = tm.iter().skip(cursor[mi]).take(take).cloned().collect();
                        cursor[mi] += take;
                        if units.is_empty() {
                            // unchanged in the finer analysis
                            if direct_all != vec![(*b, *e, *w)] {
                                let _ = &inside;
                                rep.fail("unsplit-token-changed", format!("text {:?}: C token {:?} has no {} units but mode {} gives {:?} at its place", text, (b, e, w), mname, mname, direct_all));
                                return rep;
                            }
                        } else if units.len() >= 2 {
                            let direct: Vec<Tok> = direct_all.clone();
                            let ids: Vec<WordId> = direct.iter().map(|x| x.2).collect();
                            if ids != units {
                                rep.fail("declared-units", format!("text {:?}: C token {:?} declares {} units {:?} but mode {} gives {:?}", text, (b, e, w), mname, units, mname, direct));
                                return rep;
                            }
                            // partition of the parent's range
                            let mut p = *b;
                            for (x, y, _) in &direct {
                                if *x != p || *y < *x {
                                    rep.fail("unit-partition", format!("text {:?}: pieces {:?} do not partition {}..{}", text, direct, b, e));
                                    return rep;
                                }
                                p = *y;
                            }
                            if p != *e {
                                rep.fail("unit-partition", format!("text {:?}: pieces {:?} do not partition {}..{}", text, direct, b, e));
                                return rep;
                            }
                            rep.class("split token");
                            let widths: BTreeSet<usize> = direct.iter().map(|(x, y, _)| y - x).collect();
                            if norm.len() != text.len() || widths.len() >= 2 {
                                rep.nontrivial = true;
                            }
                            if norm.len() != text.len() {
                                rep.class("split under length-changing normalisation");
                            }
                            if w.dic() > 0 {
                                rep.class("user word split");
                            }
                        }
                    }
                }
                if cursor[0] != ta.len() || cursor[1] != tb.len() {
                    rep.fail("token-count", format!("text {:?}: modes A / B have {} / {} tokens, the declared units of the C tokens account for {} / {}", text, ta.len(), tb.len(), cursor[0], cursor[1]));
                    return rep;
                }
            }
        }
        rep
    }
}

fn toks_of(ml: &MList) -> Vec<Tok> {
    toks(ml)
}

