//! C01 — morphemes partition the original text byte for byte.

use crate::common::*;
use crate::engine::*;
use crate::gen::*;
use crate::model::cfg::CfgModel;
use crate::model::dic::DicModel;
use proptest::collection::vec;
use proptest::prelude::*;
use serde::{Deserialize, Serialize};
use serde_json::{json, Value};
use sudachi::analysis::Mode;

#[derive(Clone, Debug, Serialize, Deserialize)]
pub struct Case {
    pub dic: DicModel,
    pub cfg: CfgModel,
    pub texts: Vec<Vec<Piece>>,
}

pub struct C01;

impl Property for C01 {
    type Case = Case;
    fn id(&self) -> &'static str {
        "C01"
    }
    fn rule(&self) -> &'static str {
        "case = generated (system+user dictionaries with A/B splits, plugin configuration, 1-4 texts built from dictionary keys, \
         pre-normalisation variants, pool characters, mark runs, yomigana shapes, numerals); every text is analysed in modes A, B, C and \
         every morpheme is split on demand. Non-trivial: some text whose normalised form differs in byte length from the original and \
         that yields >= 2 morphemes. Distinct = SipHash of the JSON encoding of the case."
    }
    fn assumptions(&self) -> Vec<&'static str> {
        vec!["bundled plugins only (their edits are sorted and non-overlapping)", "Err(InputTooLong|EosBosDisconnect) is accepted here; success is decided by C03"]
    }
    fn strategy(&self, tier: Tier) -> BoxedStrategy<Case> {
        let mut dp = DicParams::small();
        dp.big_matrix = true;
        let maxp = tier.pick(10, 40);
        if tier == Tier::Thorough {
            dp.max_base = 25;
            dp.max_compound = 6;
        }
        (world(dp, CfgParams::full()), vec(pieces_long(maxp), 1..=4))
            .prop_map(|((dic, cfg), texts)| Case { dic, cfg, texts })
            .boxed()
    }
    fn cases_per_shard(&self, tier: Tier) -> u32 {
        tier.pick(5000, 150000)
    }
    fn sample(&self, case: &Case) -> Value {
        let keys = all_keys(&case.dic);
        json!({
            "texts": case.texts.iter().map(|t| render_pieces(&keys, t)).collect::<Vec<_>>(),
            "system_csv": crate::model::dic::render_csv(&case.dic.system),
            "user_csv": case.dic.users.iter().map(|u| crate::model::dic::render_csv(u)).collect::<Vec<_>>(),
            "matrix": case.dic.matrix.render(),
            "cfg": case.cfg,
        })
    }
    fn extra(&self, tier: Tier, _seed: u64, ctx: &mut Ctx, stats: &mut Stats) -> Vec<(Value, Failure)> {
        // texts whose byte length / normalised byte length sit on the documented limits (49,149 and
        // 65,535: the offsets are 16-bit): whatever is accepted must still partition the text
        let (dic, cfg) = crate::props::c03::fallback_world_pub();
        let fam: Vec<(String, Case)> = crate::props::c03::length_family(tier).into_iter().map(|(n, p)| (n, Case { dic: dic.clone(), cfg: cfg.clone(), texts: vec![p] })).collect();
        run_family(self, ctx, stats, "length-family", fam)
    }
    fn check(&self, case: &Case, ctx: &mut Ctx) -> Report {
        let mut rep = Report::default();
        let (dict, _) = match build_world(&case.dic, &case.cfg, ctx) {
            Ok(x) => x,
            Err(e) => {
                if std::env::var("VERIF_DEBUG").is_ok() {
                    eprintln!("REJECT {}", e.describe());
                    if let BuildError::Panic(_) = e {
                        eprintln!("PANICCSV {:?} users {:?}", case.dic.system.iter().map(|e| (e.key.clone(), e.left)).collect::<Vec<_>>(), case.dic.users.iter().map(|u| u.iter().map(|e| (e.key.clone(), e.left)).collect::<Vec<_>>()).collect::<Vec<_>>());
                    }
                }
                rep.class("rejected");
                rep.class(match e {
                    BuildError::Compile(_) => "rejected:compile",
                    BuildError::Load(_) => "rejected:load",
                    BuildError::Panic(_) => "rejected:panic",
                });
                return rep;
            }
        };
        let keys = all_keys(&case.dic);
        let mut judged: Vec<(String, Option<String>)> = Vec::new();
        for t in &case.texts {
            let text = render_pieces(&keys, t);
            if f7_guard(&mut rep, &case.dic, &case.cfg, &text, ctx.strict) {
                continue;
            }
            let norm = match normalized_text(&dict, &text) {
                Ok(n) => Some(n),
                Err(_) => None,
            };
            judged.push((text.clone(), norm.clone()));
            for mode in MODES {
                let ml = match analyze(&dict, &text, mode, None) {
                    Ok(ml) => ml,
                    Err(e) => {
                        rep.class(match err_kind(root_err(&e)) {
                            "InputTooLong" => "err:too-long",
                            "EosBosDisconnect" => "err:disconnect",
                            _ => "err:other",
                        });
                        continue;
                    }
                };
                match check_partition(&text, &ml) {
                    Ok(_) => {}
                    Err((clause, detail)) => {
                        rep.fail(&clause, format!("text {:?} mode {}: {}", text, mode_name(mode), detail));
                        return rep;
                    }
                }
                // the rarely used debug mode (lattice and path dumps on standard output) must not change the result
                if text.len() % 5 == 2 && ml.len() <= 40 {
                    let same = {
                        let _quiet = quiet_stdout::enter();
                        guarded(|| {
                            let mut tok = sudachi::analysis::stateful_tokenizer::StatefulTokenizer::create(&dict, true, mode);
                            tok.reset().push_str(&text);
                            tok.do_tokenize().ok()?;
                            let mut dl = sudachi::prelude::MorphemeList::empty(&dict);
                            dl.collect_results(&mut tok).ok()?;
                            Some(dl.iter().map(|m| (m.begin(), m.end(), m.word_id().as_raw())).collect::<Vec<_>>())
                        })
                    };
                    let plain: Vec<(usize, usize, u32)> = ml.iter().map(|m| (m.begin(), m.end(), m.word_id().as_raw())).collect();
                    match same {
                        Ok(Some(d)) if d == plain => rep.class("debug mode agrees"),
                        Ok(d) => {
                            rep.fail("debug-mode-differs", format!("text {:?} mode {}: with the debug flag the morphemes are {:?}, without {:?}", text, mode_name(mode), d, plain));
                            return rep;
                        }
                        Err(p) => {
                            rep.fail(&format!("debug-mode-panic:{}", panic_site(&p)), format!("text {:?}: {}", text, p));
                            return rep;
                        }
                    }
                }
                if &*ml.surface() != text.as_str() {
                    rep.fail("list-surface", format!("text {:?}: MorphemeList::surface() differs", text));
                    return rep;
                }
                if let Some(n) = &norm {
                    if ml.is_empty() != n.is_empty() {
                        rep.fail("empty-iff", format!("text {:?} mode {}: {} morphemes but normalised text is {:?}", text, mode_name(mode), ml.len(), n));
                        return rep;
                    }
                    if n.len() != text.len() && ml.len() >= 2 {
                        rep.nontrivial = true;
                        if n.len() > text.len() {
                            rep.class("expansion");
                        } else {
                            rep.class("shrink");
                        }
                    }
                }
                // on-demand splits partition the parent's range
                let mut out = sudachi::prelude::MorphemeList::empty(&dict);
                for (i, m) in ml.iter().enumerate() {
                    for sm in [Mode::A, Mode::B] {
                        out.clear();
                        match m.split_into(sm, &mut out) {
                            Ok(true) => {
                                rep.class("split");
                                let (pb, pe) = (m.begin(), m.end());
                                let mut prev = pb;
                                for (j, s) in out.iter().enumerate() {
                                    let (b, e) = (s.begin(), s.end());
                                    if b != prev || e < b || e > pe || !text.is_char_boundary(b) || !text.is_char_boundary(e) {
                                        rep.fail("split-partition", format!("text {:?} mode {} morpheme {} split {} piece {}: {}..{} (parent {}..{}, prev end {})", text, mode_name(mode), i, mode_name(sm), j, b, e, pb, pe, prev));
                                        return rep;
                                    }
                                    if &*s.surface() != &text[b..e] {
                                        rep.fail("split-surface", format!("text {:?} morpheme {} split piece {} surface mismatch", text, i, j));
                                        return rep;
                                    }
                                    prev = e;
                                }
                                if prev != pe {
                                    rep.fail("split-partition", format!("text {:?} mode {} morpheme {} split {}: pieces end at {} parent at {}", text, mode_name(mode), i, mode_name(sm), prev, pe));
                                    return rep;
                                }
                            }
                            Ok(false) => {}
                            Err(_) => {}
                        }
                    }
                }
            }
        }
        // one tokenizer and one result list over all the texts of the case, with empty texts in between (also directly
        // after an analysis whose result was never collected): every collected list must partition ITS text, and an
        // empty text yields no morphemes whatever the objects held before
        if !judged.is_empty() {
            let mut seq: Vec<(String, Option<String>, bool)> = Vec::new();
            for (i, (t, n)) in judged.iter().enumerate() {
                seq.push((t.clone(), n.clone(), true));
                if i % 2 == 1 {
                    seq.push((String::new(), Some(String::new()), true));
                }
            }
            seq.push((String::new(), Some(String::new()), true));
            seq.push((judged[0].0.clone(), judged[0].1.clone(), false));
            seq.push((String::new(), Some(String::new()), true));
            // a text that is rejected only AFTER it was rewritten (its normalised form is too long), then every text
            // again, twice: tokenizer and list swap their buffers at every collected result, so what a failed analysis
            // leaves behind is met by every second later text
            seq.push(("ﷺ".repeat(2100), None, true));
            for _ in 0..2 {
                for (t, n) in judged.iter() {
                    seq.push((t.clone(), n.clone(), true));
                }
            }
            let mode = MODES[judged[0].0.len() % 3];
            let res = guarded(|| -> Result<(), (String, String)> {
                let mut tok = sudachi::analysis::stateful_tokenizer::StatefulTokenizer::new(&dict, mode);
                let mut list = sudachi::prelude::MorphemeList::empty(&dict);
                for (k, (text, norm, collect)) in seq.iter().enumerate() {
                    tok.reset().push_str(text);
                    if tok.do_tokenize().is_err() {
                        continue;
                    }
                    if !*collect {
                        continue;
                    }
                    if list.collect_results(&mut tok).is_err() {
                        continue;
                    }
                    check_partition(text, &list).map_err(|(c, d)| (format!("reused:{}", c), format!("step {} of the reused tokenizer / list, text {:?} mode {}: {}", k, text, mode_name(mode), d)))?;
                    if let Some(n) = norm {
                        if list.is_empty() != n.is_empty() {
                            return Err(("reused:empty-iff".into(), format!("step {} of the reused tokenizer / list, text {:?} mode {}: {} morphemes but the normalised text is {:?}", k, text, mode_name(mode), list.len(), n)));
                        }
                    }
                }
                Ok(())
            });
            match res {
                Ok(Ok(())) => rep.class("reused tokenizer and list"),
                Ok(Err((c, d))) => {
                    rep.fail(&c, d);
                    return rep;
                }
                Err(p) => {
                    rep.fail(&format!("reused-panic:{}", panic_site(&p)), format!("texts {:?} on one tokenizer / list: {}", seq.iter().map(|x| x.0.clone()).collect::<Vec<_>>(), p));
                    return rep;
                }
            }
        }
        rep
    }
}
