//! C03 — tokenization is total: never panics, succeeds within the documented limits.

use crate::common::*;
use crate::engine::*;
use crate::gen::*;
use crate::model::cfg::*;
use crate::model::chardef::CharDefModel;
use crate::model::dic::*;
use crate::model::norm::*;
use proptest::collection::vec;
use proptest::prelude::*;
use serde::{Deserialize, Serialize};
use serde_json::{json, Value};
use sudachi::dic::subset::InfoSubset;

pub const MAX_INPUT: usize = 49_149;
pub const MAX_NORM: usize = 65_535;

#[derive(Clone, Debug, Serialize, Deserialize)]
pub struct Case {
    pub dic: DicModel,
    pub cfg: CfgModel,
    pub texts: Vec<Vec<Piece>>,
    /// bits of the field subset handed to set_subset (0xffff = do not call it)
    pub subset: u16,
}

pub struct C03;

/// Reference: text after the configured input-text plugins, with the largest intermediate length
pub fn reference_normalize(cfg: &CfgModel, text: &str) -> (String, usize, bool) {
    let mut cur = text.to_string();
    let mut max_running = cur.len();
    let mut tc = false;
    for p in &cfg.input {
        let r = match p {
            InputPlugin::Default { rewrite } => {
                let t = RewriteTable::parse(&read_src("rewrite.def", rewrite));
                normalize_default(&t, &cur)
            }
            InputPlugin::Psm { marks, replacement } => normalize_psm(marks, replacement.as_deref().unwrap_or("ー"), &cur),
            InputPlugin::Yomigana { left, right, max_len } => {
                let cd = CharDefModel::parse(&read_src("char.def", &cfg.chardef));
                normalize_yomigana(&cd, left, right, *max_len, &cur)
            }
        };
        max_running = max_running.max(r.max_running_len).max(r.text.len());
        tc |= r.saw_titlecase;
        cur = r.text;
    }
    (cur, max_running, tc)
}

fn fallback_world() -> (DicModel, CfgModel) {
    // moderate costs: 50,000 tokens x (|word| + |conn|) stays far below 2^31 (F7 is pinned separately)
    let num = pos_from_str(POS_NUM);
    let noun = pos_from_str(POS_NOUN);
    let sym = pos_from_str(POS_SYM);
    let dic = DicModel {
        matrix: Matrix { nl: 2, nr: 2, lines: vec![(0, 0, 10), (0, 1, -20), (1, 0, 300), (1, 1, 5)] },
        system: vec![
            Entry::simple("1", 0, 0, 500, &num),
            Entry::simple("a", 1, 1, 700, &noun),
            Entry::simple("。", 0, 1, 100, &sym),
            Entry::simple("aa", 1, 0, 900, &noun),
            Entry::simple("株式会社", 1, 1, 1200, &noun),
        ],
        users: vec![],
    };
    let cfg = CfgModel {
        chardef: FileSrc::Shipped,
        input: vec![InputPlugin::Default { rewrite: FileSrc::Shipped }],
        oov: vec![
            OovPlugin::Mecab { chardef: FileSrc::Shipped, unkdef: FileSrc::Text(small_unk_def(&FileSrc::Shipped, 2, 2)), user_pos: Some(true) },
            OovPlugin::Simple { pos: sym, left: 0, right: 1, cost: 3000, user_pos: Some(true) },
        ],
        inhibit: None,
        path: vec![PathPlugin::JoinNumeric { enable_normalize: Some(true) }, PathPlugin::JoinKatakana { pos: noun, min_length: 3 }],
    };
    (dic, cfg)
}

pub fn fallback_world_pub() -> (DicModel, CfgModel) {
    fallback_world()
}

/// Texts whose byte length / normalised byte length sit on the documented limits, including
/// shapes where expanding edits precede shrinking ones (fixed finding F10).
pub fn length_family(tier: Tier) -> Vec<(String, Vec<Piece>)> {
    let mut v: Vec<(String, Vec<Piece>)> = Vec::new();
    let fills: &[(&str, usize)] = &[("a", 1), ("é", 2), ("あ", 3), ("𠮷", 4)];
    let lens: Vec<usize> = match tier {
        Tier::Quick => vec![49_140, 49_147, 49_148, 49_149, 49_150, 49_151, 49_152, 49_160],
        Tier::Thorough => (49_140..=49_160).collect(),
    };
    for n in &lens {
        for (f, w) in fills {
            // n = k*w + r ascii bytes
            let k = n / w;
            let r = n % w;
            v.push((format!("input {} bytes of {}-byte chars", n, w), vec![Piece::Rep(f.to_string(), k as u32), Piece::Rep("x".into(), r as u32)]));
        }
    }
    // normalised length family: ﷺ (3 bytes -> 33 bytes NFKC), ㍿ (3 -> 12), then ascii filler
    let exp: &[(&str, usize, usize)] = &[("ﷺ", 3, "ﷺ".chars().flat_map(|c| unicode_normalization::UnicodeNormalization::nfkc(std::iter::once(c))).collect::<String>().len()), ("㍿", 3, 12)];
    let targets: Vec<usize> = match tier {
        Tier::Quick => vec![65_520, 65_534, 65_535, 65_536, 65_537, 65_560],
        Tier::Thorough => (65_520..=65_560).collect(),
    };
    for t in &targets {
        for (e, inb, outb) in exp {
            // choose count of expanders so that the input stays legal, fill the rest with ascii
            let cnt = 1500usize.min(MAX_INPUT / inb);
            let out_exp = cnt * outb;
            if out_exp > *t {
                continue;
            }
            let fill = t - out_exp;
            if cnt * inb + fill > MAX_INPUT {
                // cannot reach the target with a legal input using this expander
                continue;
            }
            v.push((format!("normalised {} bytes via {}", t, e), vec![Piece::Rep(e.to_string(), cnt as u32), Piece::Rep("y".into(), fill as u32)]));
        }
    }
    // expanders first, then shrinking characters (Ａ: 3 bytes -> 1): the running length passes the
    // limit although the final text fits; and the mirrored order
    for (cnt_e, cnt_s) in [(1300u32, 15_000u32), (1400, 14_900), (1900, 0), (1986, 0), (1985, 1)] {
        v.push((format!("{} x U+FDFA then {} x fullwidth A", cnt_e, cnt_s), vec![Piece::Rep("ﷺ".into(), cnt_e), Piece::Rep("Ａ".into(), cnt_s)]));
        v.push((format!("{} x fullwidth A then {} x U+FDFA", cnt_s, cnt_e), vec![Piece::Rep("Ａ".into(), cnt_s), Piece::Rep("ﷺ".into(), cnt_e)]));
    }
    v
}

impl C03 {
    fn check_text(&self, rep: &mut Report, case: &Case, dict: &Dict, text: &str, _ctx: &Ctx) {
        let subset = if case.subset == 0xffff { None } else { Some(InfoSubset::from_bits_truncate(case.subset as u32)) };
        let (norm, max_running, _tc) = reference_normalize(&case.cfg, text);
        let within_input = text.len() <= MAX_INPUT;
        let within_norm = norm.len() <= MAX_NORM;
        if within_input && within_norm && max_running > MAX_NORM {
            // the shape of fixed finding F10 (no exclusion: it must succeed now)
            rep.class("running-length-over-limit");
        }
        for mode in MODES {
            let r = guarded(|| match analyze(dict, text, mode, subset) {
                Ok(ml) => {
                    let chk = consume_all(dict, &ml, mode == sudachi::analysis::Mode::C);
                    let part = check_partition(text, &ml);
                    Ok((ml.len(), chk, part))
                }
                Err(e) => Err(e),
            });
            let short = |s: &str| crate::driver::truncate(s, 80);
            match r {
                Err(p) => {
                    rep.fail(&format!("panic:{}", panic_site(&p)), format!("text {:?} ({} bytes) mode {} subset {:?}: {}", short(text), text.len(), mode_name(mode), subset, p));
                    return;
                }
                Ok(Ok((_n, _chk, part))) => {
                    if let Err((clause, detail)) = part {
                        rep.fail(&format!("truncated:{}", clause), format!("text {:?} mode {}: {}", short(text), mode_name(mode), detail));
                        return;
                    }
                    if !within_input {
                        rep.fail("limit-input", format!("input of {} bytes (> {}) was accepted", text.len(), MAX_INPUT));
                        return;
                    }
                    if !within_norm {
                        rep.fail("limit-norm", format!("input whose normalised form has {} bytes (> {}) was accepted", norm.len(), MAX_NORM));
                        return;
                    }
                }
                Ok(Err(e)) => {
                    let kind = err_kind(root_err(&e));
                    if !within_input || !within_norm {
                        if kind != "InputTooLong" {
                            rep.fail("limit-error-kind", format!("over-long input ({} bytes, normalised {}) gave {} instead of InputTooLong", text.len(), norm.len(), e));
                            return;
                        }
                        rep.class("too-long-rejected");
                        continue;
                    }
                    if case.cfg.has_fallback() {
                        rep.fail(&format!("must-succeed:{}", kind), format!("text {:?} ({} bytes, normalised {} bytes) mode {} with a fallback provider: {}", short(text), text.len(), norm.len(), mode_name(mode), e));
                        return;
                    }
                    rep.class("err-without-fallback");
                }
            }
        }
    }
}

impl Property for C03 {
    type Case = Case;
    fn id(&self) -> &'static str {
        "C03"
    }
    fn rule(&self) -> &'static str {
        "case = generated dictionaries (cost extremes included) x plugin configuration x 1-4 texts (pool characters incl. NUL, controls, \
         unassigned, astral, combining, ZWJ, NFKC expanders, arbitrary Unicode) x modes A/B/C x a random field subset; every accessor of every \
         morpheme and of every on-demand sub-morpheme is called under catch_unwind with debug assertions and overflow checks on. Plus the \
         length family: inputs of exactly n bytes around 49,149 and inputs whose normalised form lands around 65,535 bytes. Non-trivial: a \
         text with >= 2 distinct UTF-8 widths or an NFKC expander or a non-BMP / unassigned character; every length-family case."
    }
    fn assumptions(&self) -> Vec<&'static str> {
        vec![
            "fallback configured = SimpleOovPlugin is the last OOV provider (the shipped shape)",
            "the normalised length used by the success clause comes from the harness' reference normaliser (unicode-normalization crate)",
            "known finding F7 (i32 path-cost overflow, needs tens of thousands of tokens at costs near the ends of i16) is excluded by the predicate common::f7_class (largest |word cost| + |connection cost| times an upper bound of the token count reaches 2^31; counted in the evidence) and pinned by a reproducer; the length family uses moderate costs",
            "a case that does not finish within the watchdog limit (120 s; cases take milliseconds) is reported as a violation of this property: termination is what it states",
        ]
    }
    fn strategy(&self, tier: Tier) -> BoxedStrategy<Case> {
        let mut dp = DicParams::small();
        dp.big_matrix = true;
        dp.avoid_f12 = false;
        let mut cp = CfgParams::full();
        cp.force_fallback = false;
        let maxp = tier.pick(10, 40);
        (world(dp, cp), vec(pieces_long(maxp), 1..=4), prop_oneof![1 => Just(0xffffu16), 2 => 0u16..1024, 1 => (0u16..256).prop_map(|x| x * 4 + 1)])
            .prop_map(|((dic, cfg), texts, subset)| Case { dic, cfg, texts, subset })
            .boxed()
    }
    fn cases_per_shard(&self, tier: Tier) -> u32 {
        tier.pick(4000, 120000)
    }
    fn hang_is_violation(&self) -> bool {
        true
    }
    fn sample(&self, case: &Case) -> Value {
        let keys = all_keys(&case.dic);
        json!({
            "texts": case.texts.iter().map(|t| crate::driver::truncate(&render_pieces(&keys, t), 200)).collect::<Vec<_>>(),
            "subset": case.subset,
            "system_keys": case.dic.system.iter().map(|e| format!("{}:{}/{}/{}", e.key, e.left, e.right, e.cost)).collect::<Vec<_>>(),
            "users": case.dic.users.len(),
            "cfg": case.cfg,
        })
    }
    fn check(&self, case: &Case, ctx: &mut Ctx) -> Report {
        let mut rep = Report::default();
        if f12_class(&case.dic, &case.cfg) {
            // the shape of fixed finding F12 (no exclusion: it must terminate now)
            rep.class("numeric-token-with-separator-in-normalized-form");
        }
        let (dict, _) = match build_world(&case.dic, &case.cfg, ctx) {
            Ok(x) => x,
            Err(e) => {
                if std::env::var("VERIF_DEBUG").is_ok() {
                    eprintln!("REJECT {}", e.describe());
                }
                rep.class("rejected");
                return rep;
            }
        };
        let keys = all_keys(&case.dic);
        for t in &case.texts {
            let text = render_pieces(&keys, t);
            if f7_guard(&mut rep, &case.dic, &case.cfg, &text, ctx.strict) {
                continue;
            }
            let mut widths = std::collections::BTreeSet::new();
            let mut special = false;
            for c in text.chars() {
                widths.insert(c.len_utf8());
                if c as u32 > 0xFFFF || "㍿㌀㍻㈱ﬁⅢ⑩ﷺ½㎏\u{378}\u{0}".contains(c) {
                    special = true;
                }
            }
            if widths.len() >= 2 || special || text.len() > 40_000 {
                rep.nontrivial = true;
            }
            if text.len() > 40_000 {
                rep.class("length-family");
            }
            self.check_text(&mut rep, case, &dict, &text, ctx);
            if rep.failed() {
                return rep;
            }
        }
        // the same texts once more on ONE reused tokenizer and result list, with a rejected input
        // (normalised form too long / input too long) in between: still no panic, and accepted
        // analyses still partition the text (what a long-lived tokenizer object goes through)
        if case.subset % 4 == 1 && case.texts.iter().map(|t| t.len()).sum::<usize>() < 200 && !case.texts.iter().any(|t| f7_class(&case.dic, &case.cfg, &render_pieces(&keys, t))) {
            use sudachi::analysis::stateful_tokenizer::StatefulTokenizer;
            let mut seq: Vec<String> = Vec::new();
            for (i, t) in case.texts.iter().enumerate() {
                seq.push(render_pieces(&keys, t));
                match (case.subset as usize + i) % 3 {
                    // (with the debug flag a short one: a dump of 2,100 lattice positions per pass costs seconds)
                    0 => seq.push("ﷺ".repeat(if case.subset % 16 == 1 { 30 } else { 2100 })),
                    1 => seq.push("x".repeat(MAX_INPUT + 1)),
                    _ => {}
                }
            }
            seq.extend(case.texts.iter().map(|t| render_pieces(&keys, t)));
            // every other pass runs with the debug flag (lattice and path dumps on standard output, what the command
            // line tool's -d does): the dumps walk the lattice of the CURRENT text on a tokenizer that held longer ones
            let debug = case.subset % 16 == 1;
            let _quiet = if debug { Some(crate::engine::quiet_stdout::enter()) } else { None };
            let r = guarded(|| {
                let mut tok = StatefulTokenizer::create(&dict, debug, sudachi::analysis::Mode::C);
                let mut ml = sudachi::prelude::MorphemeList::empty(&dict);
                for (i, text) in seq.iter().enumerate() {
                    tok.set_mode(mode_of(i as u8));
                    tok.reset().push_str(text);
                    if tok.do_tokenize().is_ok() && ml.collect_results(&mut tok).is_ok() {
                        consume_all(&dict, &ml, false);
                        if let Err((clause, detail)) = check_partition(text, &ml) {
                            return Err((i, clause, detail));
                        }
                    }
                }
                Ok(())
            });
            match r {
                Ok(Ok(())) => rep.class(if debug { "reused tokenizer pass with the debug flag" } else { "reused tokenizer pass" }),
                Ok(Err((i, clause, detail))) => rep.fail(&format!("reused:{}", clause), format!("step {} of the reused-tokenizer pass, text {:?}: {}", i, crate::driver::truncate(&seq[i], 60), detail)),
                Err(p) => rep.fail(&format!("reused-panic:{}", panic_site(&p)), format!("reused-tokenizer pass over {:?}: {}", seq.iter().map(|s| crate::driver::truncate(s, 20)).collect::<Vec<_>>(), p)),
            }
        }
        rep
    }
    fn extra(&self, tier: Tier, _seed: u64, ctx: &mut Ctx, stats: &mut Stats) -> Vec<(Value, Failure)> {
        // length family on the fixed fallback configuration, in parallel
        let fam = length_family(tier);
        let (dic, cfg) = fallback_world();
        let cases: Vec<Case> = fam.iter().map(|(_, p)| Case { dic: dic.clone(), cfg: cfg.clone(), texts: vec![p.clone()], subset: 0xffff }).collect();
        let results: Vec<(usize, Report)> = std::thread::scope(|sc| {
            let mut hs = Vec::new();
            let chunk = (cases.len() + 15) / 16;
            for (ci, part) in cases.chunks(chunk.max(1)).enumerate() {
                let dir = ctx.dir.join(format!("lf{}", ci));
                let tier = ctx.tier;
                hs.push(sc.spawn(move || {
                    let mut c2 = Ctx { dir, strict: false, tier };
                    part.iter().enumerate().map(|(i, c)| (ci * chunk + i, match guarded(|| self.check(c, &mut c2)) {
                        Ok(r) => r,
                        Err(p) => {
                            let mut r = Report::default();
                            r.fail(&format!("harness-panic:{}", panic_site(&p)), p);
                            r
                        }
                    })).collect::<Vec<_>>()
                }));
            }
            hs.into_iter().flat_map(|h| h.join().unwrap()).collect()
        });
        let mut fails = Vec::new();
        for (i, rep) in results {
            stats.record(&format!("length-family:{}", fam[i].0), rep.failure.is_none(), Some("length-family"));
            if let Some(e) = rep.excluded {
                *stats.excluded.entry(e.to_string()).or_default() += 1;
            }
            if let Some(f) = rep.failure {
                fails.push((serde_json::to_value(&cases[i]).unwrap(), f));
            }
        }
        // a char.def whose LENGTH column holds the largest value its type admits: the candidate loop of the MeCab
        // provider must not run (and allocate) in proportion to that number. Run in a child process under an
        // address-space limit of 6 GiB with a two-minute cap, so that a runaway allocation cannot hurt this process.
        {
            use std::os::unix::process::CommandExt;
            let shipped = read_src("char.def", &FileSrc::Shipped);
            for (label, len) in [("65535", 65_535u64), ("4294967295", 4_294_967_295u64)] {
                let cd: String = shipped
                    .lines()
                    .map(|l| {
                        let c: Vec<&str> = l.split_whitespace().collect();
                        if c.len() == 4 && (c[0] == "KANJI" || c[0] == "KATAKANA") && c[1..].iter().all(|x| x.chars().all(|ch| ch.is_ascii_digit())) {
                            format!("{} {} {} {}", c[0], c[1], c[2], len)
                        } else {
                            l.to_string()
                        }
                    })
                    .collect::<Vec<_>>()
                    .join("\n");
                let (dic, mut cfg) = fallback_world();
                cfg.chardef = FileSrc::Text(cd.clone());
                cfg.oov[0] = OovPlugin::Mecab { chardef: FileSrc::Text(cd), unkdef: FileSrc::Text(small_unk_def(&FileSrc::Shipped, 2, 2)), user_pos: Some(true) };
                let case = Case { dic, cfg, texts: vec![vec![Piece::Raw("漢".into())], vec![Piece::Raw("1アイ".into())]], subset: 0xffff };
                let file = ctx.dir.join(format!("oov-length-{}.json", label));
                let _ = std::fs::create_dir_all(&ctx.dir);
                write_json(&file, &json!({"case": serde_json::to_value(&case).unwrap()}));
                let exe = std::env::current_exe().expect("current exe");
                let mut cmd = std::process::Command::new(exe);
                cmd.args(["C03", "quick", "--replay", file.to_str().unwrap()]).stdout(std::process::Stdio::null()).stderr(std::process::Stdio::null());
                unsafe {
                    cmd.pre_exec(|| {
                        let lim = libc::rlimit { rlim_cur: 6 << 30, rlim_max: 6 << 30 };
                        libc::setrlimit(libc::RLIMIT_AS, &lim);
                        Ok(())
                    });
                }
                let verdict = match cmd.spawn() {
                    Err(e) => Some(format!("cannot start the child: {}", e)),
                    Ok(mut child) => {
                        let t0 = std::time::Instant::now();
                        loop {
                            match child.try_wait() {
                                Ok(Some(st)) if st.code() == Some(0) => break None,
                                Ok(Some(st)) => break Some(format!("the analysis of one character did not return: the child ended with {:?} (address space limited to 6 GiB)", st)),
                                Ok(None) if t0.elapsed().as_secs() > 120 => {
                                    let _ = child.kill();
                                    let _ = child.wait();
                                    break Some("the analysis of one character ran for more than 120 s".to_string());
                                }
                                Ok(None) => std::thread::sleep(std::time::Duration::from_millis(50)),
                                Err(e) => break Some(format!("wait: {}", e)),
                            }
                        }
                    }
                };
                stats.record(&format!("oov-length:{}", label), verdict.is_none(), Some("huge LENGTH column"));
                if let Some(v) = verdict {
                    fails.push((serde_json::to_value(&case).unwrap(), Failure { clause: "oov-length-runaway".into(), detail: format!("char.def LENGTH = {}: {}", label, v) }));
                }
            }
        }
        stats.extra.insert("length_family_cases".into(), json!(fam.len()));
        stats.extra.insert("length_family_sample".into(), json!(fam.iter().take(3).map(|x| x.0.clone()).collect::<Vec<_>>()));
        fails
    }
}


/// reproducers of the recorded findings of this property (written to corpus/C03 by `vcheck fixtures`)
pub fn fixtures() -> Vec<(&'static str, Case, &'static str)> {
    let sym = pos_from_str(POS_SYM);
    let num = pos_from_str(POS_NUM);
    let mut v = Vec::new();
    // F7: i32 overflow of the cumulative path cost
    let dic = DicModel { matrix: Matrix { nl: 1, nr: 1, lines: vec![(0, 0, 32767)] }, system: vec![Entry::simple("1", 0, 0, 32767, &num)], users: vec![] };
    let cfg = CfgModel { chardef: FileSrc::Shipped, input: vec![], oov: vec![OovPlugin::Simple { pos: sym.clone(), left: 0, right: 0, cost: 32767, user_pos: Some(true) }], inhibit: None, path: vec![] };
    v.push((
        "f7-path-cost-overflow.json",
        Case { dic, cfg, texts: vec![vec![Piece::Rep("1".into(), 40_000)]], subset: 0xffff },
        "F7: 40,000 tokens of word cost 32767 + connection cost 32767: the i32 cumulative cost overflows in Lattice::connect_node",
    ));
    // F10: running length estimate
    let (dic, cfg) = fallback_world();
    v.push((
        "f10-running-length.json",
        Case { dic, cfg, texts: vec![vec![Piece::Rep("ﷺ".into(), 1300), Piece::Rep("Ａ".into(), 15_000)]], subset: 0xffff },
        "F10: 48,900 input bytes, normalised 57,900 bytes, but the expanding edits come first: resolve_edits gives up when its running estimate passes 65,535",
    ));
    // F12: JoinNumeric never terminates
    let mut e = Entry::simple("1", 0, 0, 100, &num);
    e.normalized = ",".into();
    let dic = DicModel { matrix: Matrix { nl: 1, nr: 1, lines: vec![] }, system: vec![e], users: vec![] };
    let cfg = CfgModel {
        chardef: FileSrc::Shipped,
        input: vec![],
        oov: vec![OovPlugin::Simple { pos: sym, left: 0, right: 0, cost: 3000, user_pos: Some(true) }],
        inhibit: None,
        path: vec![PathPlugin::JoinNumeric { enable_normalize: Some(true) }],
    };
    v.push((
        "f12-join-numeric-hang.json",
        Case { dic, cfg, texts: vec![vec![Piece::Raw("1".into())]], subset: 0xffff },
        "F12: a NUMERIC-class token whose dictionary normalised form is ',' makes JoinNumericPlugin rewind to the same token forever",
    ));
    // F23: RegexOovProvider with maxLength = usize::MAX
    let sym = pos_from_str(POS_SYM);
    let noun = pos_from_str(POS_NOUN);
    let dic = DicModel { matrix: Matrix { nl: 1, nr: 1, lines: vec![] }, system: vec![Entry::simple("京都", 0, 0, 100, &noun)], users: vec![] };
    let cfg = CfgModel {
        chardef: FileSrc::Shipped,
        input: vec![],
        oov: vec![
            OovPlugin::Regex { pos: noun.clone(), left: 0, right: 0, cost: 100, regex: "[a-z]+".into(), max_length: Some(usize::MAX), strict: None, user_pos: Some(true) },
            OovPlugin::Simple { pos: sym, left: 0, right: 0, cost: 3000, user_pos: Some(true) },
        ],
        inhibit: None,
        path: vec![],
    };
    v.push((
        "f23-regex-max-length-overflow.json",
        Case { dic, cfg, texts: vec![vec![Piece::Raw("京都abc".into())]], subset: 0xffff },
        "F23: RegexOovProvider accepts maxLength = 18446744073709551615; at every offset > 0 `offset + max_length` overflows (panic with overflow checks on, a wrapped window without)",
    ));
    v
}
