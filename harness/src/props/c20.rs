//! C20 — out-of-range plugin parameters are rejected when the dictionary is loaded.

use crate::common::*;
use crate::engine::*;
use crate::gen::*;
use crate::model::cfg::*;
use crate::model::dic::*;
use proptest::collection::vec;
use proptest::prelude::*;
use proptest::sample::select;
use serde::{Deserialize, Serialize};
use serde_json::{json, Value};
use sudachi::analysis::stateless_tokenizer::DictionaryAccess;

#[derive(Clone, Debug, Serialize, Deserialize)]
pub struct UnkLine {
    pub cat: String,
    pub left: i64,
    pub right: i64,
    pub cost: i64,
    pub pos: Pos,
}

#[derive(Clone, Debug, Serialize, Deserialize)]
pub enum Plug {
    Simple { left: i64, right: i64, cost: i64, pos: Pos, user_pos: Option<bool> },
    Regex { left: i64, right: i64, cost: i64, pos: Pos, user_pos: Option<bool> },
    Mecab { lines: Vec<UnkLine>, user_pos: Option<bool> },
}

#[derive(Clone, Debug, Serialize, Deserialize)]
pub struct Case {
    pub matrix: Matrix,
    pub oov: Vec<Plug>,
    pub inhibit: Option<Vec<(i64, i64)>>,
    pub texts: Vec<String>,
}

pub struct C20;

fn boundary(n: u16) -> BoxedStrategy<i64> {
    let n = n as i64;
    prop_oneof![
        14 => (0..n.max(1)),
        3 => select(vec![-32769i64, -32768, -1, 0, n - 1, n, n + 1, 32767, 32768, 65535, 65536]),
    ]
    .boxed()
}

fn cost_val() -> BoxedStrategy<i64> {
    prop_oneof![12 => -500i64..9000, 3 => select(vec![-32769i64, -32768, -1, 0, 32767, 32768, 65535, 65536])].boxed()
}

/// parts of speech that differ from ones of the dictionary (or from each other) only in the conjugation columns
const POS_NOUN_CONJ_A: &str = "名詞,普通名詞,一般,*,活用甲,*";
const POS_NOUN_CONJ_B: &str = "名詞,普通名詞,一般,*,*,終止形";
const POS_SYM_CONJ: &str = "補助記号,一般,*,*,活用甲,終止形";

fn pos_choice() -> BoxedStrategy<(Pos, Option<bool>)> {
    // present in the dictionary / absent, userPOS allow / forbid / missing; rarely an array of 0-5 or 7 components
    // (prefix / extension of a dictionary POS), which no setting of userPOS makes acceptable
    let malformed = (select(vec![POS_NOUN, POS_SYM]), prop_oneof![(0u8..6).prop_map(Some), Just(None)], select(vec![None, Some(true), Some(false)])).prop_map(|(p, k, u)| {
        let mut pos = pos_from_str(p);
        pos[5] = match k {
            Some(k) => format!("{}{}", crate::model::cfg::POS_CUT, k),
            None => crate::model::cfg::POS_EXT.to_string(),
        };
        (pos, u)
    });
    let regular = (prop_oneof![6 => select(vec![POS_NOUN, POS_SYM]), 1 => select(vec![POS_PLUGIN, POS_USER2]), 1 => select(vec![POS_NOUN_CONJ_A, POS_NOUN_CONJ_B, POS_SYM_CONJ])], select(vec![None, Some(true), Some(false)])).prop_map(|(p, u)| (pos_from_str(p), u));
    prop_oneof![14 => regular, 1 => malformed].boxed()
}

/// (load must succeed?, is in the input class of known finding F6a?)
pub struct Verdict {
    pub ok: bool,
    pub f6a: bool,
    pub boundary: bool,
    pub why: String,
}

/// `known`: parts of speech of the dictionary plus those registered by earlier plugins / lines
fn pos_ok(known: &mut Vec<Pos>, pos: &Pos, user_pos: &Option<bool>) -> bool {
    if crate::model::cfg::pos_malformed(pos) {
        return false;
    }
    if known.contains(pos) {
        return true;
    }
    if *user_pos == Some(true) {
        known.push(pos.clone());
        return true;
    }
    false
}

pub fn expected(case: &Case) -> Verdict {
    // left ids index the second matrix dimension (nr), right ids the first (nl)
    let (nl, nr) = (case.matrix.nl as i64, case.matrix.nr as i64);
    let mut v = Verdict { ok: true, f6a: false, boundary: false, why: String::new() };
    let mut bad = |v: &mut Verdict, s: String| {
        if v.ok {
            v.why = s;
        }
        v.ok = false;
    };
    let is_b = |x: i64, n: i64| [-32769, -32768, -1, n - 1, n, n + 1, 32767, 32768, 65535, 65536].contains(&x);
    // plugins are set up in order: the first offending one decides, and F6a only matters if nothing
    // else is wrong
    let mut f6a = false;
    // the generated system dictionary declares exactly POS_NUM, POS_NOUN and POS_SYM
    let mut known: Vec<Pos> = vec![pos_from_str(POS_NUM), pos_from_str(POS_NOUN), pos_from_str(POS_SYM)];
    for p in &case.oov {
        match p {
            Plug::Simple { left, right, cost, pos, user_pos } | Plug::Regex { left, right, cost, pos, user_pos } => {
                if is_b(*left, nr) || is_b(*right, nl) || [-32769, -32768, 32767, 32768].contains(cost) {
                    v.boundary = true;
                }
                if !pos_ok(&mut known, pos, user_pos) {
                    bad(&mut v, format!("POS {:?} absent and userPOS {:?}", pos, user_pos));
                }
                if *left < 0 || *left > nr {
                    bad(&mut v, format!("leftId {} outside 0..{}", left, nr));
                } else if *left == nr {
                    f6a = true;
                }
                if *right < 0 || *right > nl {
                    bad(&mut v, format!("rightId {} outside 0..{}", right, nl));
                } else if *right == nl {
                    f6a = true;
                }
                if *cost < i16::MIN as i64 || *cost > i16::MAX as i64 {
                    bad(&mut v, format!("cost {} does not fit i16", cost));
                }
            }
            Plug::Mecab { lines, user_pos } => {
                for l in lines {
                    if is_b(l.left, nr) || is_b(l.right, nl) || [-32769, -32768, 32767, 32768].contains(&l.cost) {
                        v.boundary = true;
                    }
                    if !pos_ok(&mut known, &l.pos, user_pos) {
                        bad(&mut v, format!("unk.def POS {:?} absent and userPOS {:?}", l.pos, user_pos));
                    }
                    if l.left < 0 || l.left >= nr {
                        bad(&mut v, format!("unk.def left id {} outside 0..{}", l.left, nr));
                    }
                    if l.right < 0 || l.right >= nl {
                        bad(&mut v, format!("unk.def right id {} outside 0..{}", l.right, nl));
                    }
                    if l.cost < i16::MIN as i64 || l.cost > i16::MAX as i64 {
                        bad(&mut v, format!("unk.def cost {} does not fit i16", l.cost));
                    }
                }
            }
        }
    }
    if let Some(pairs) = &case.inhibit {
        for (a, b) in pairs {
            if is_b(*a, nl) || is_b(*b, nr) {
                v.boundary = true;
            }
            // first member: right id of the left node (first dimension), second: left id of the right node
            if *a < 0 || *a >= nl || *b < 0 || *b >= nr {
                bad(&mut v, format!("inhibitPair [{}, {}] outside the {} x {} matrix", a, b, nl, nr));
            }
        }
    }
    v.f6a = f6a && v.ok;
    v
}

fn to_cfg(case: &Case) -> CfgModel {
    let cats_src = FileSrc::Shipped;
    let mut oov = Vec::new();
    for p in &case.oov {
        oov.push(match p {
            Plug::Simple { left, right, cost, pos, user_pos } => OovPlugin::Simple { pos: pos.clone(), left: *left, right: *right, cost: *cost, user_pos: *user_pos },
            Plug::Regex { left, right, cost, pos, user_pos } => OovPlugin::Regex { pos: pos.clone(), left: *left, right: *right, cost: *cost, regex: "[a-z0-9]+".into(), max_length: None, strict: None, user_pos: *user_pos },
            Plug::Mecab { lines, user_pos } => {
                let mut t = String::new();
                for l in lines {
                    t.push_str(&format!("{},{},{},{},{}\n", l.cat, l.left, l.right, l.cost, l.pos.join(",")));
                }
                OovPlugin::Mecab { chardef: cats_src.clone(), unkdef: FileSrc::Text(t), user_pos: *user_pos }
            }
        });
    }
    CfgModel { chardef: FileSrc::Shipped, input: vec![], oov, inhibit: case.inhibit.clone(), path: vec![] }
}

impl Property for C20 {
    type Case = Case;
    fn id(&self) -> &'static str {
        "C20"
    }
    fn rule(&self) -> &'static str {
        "case = matrix n x m (1-6, sometimes 200 x 3 / 3 x 200), 1-3 OOV providers (Simple, Regex, MeCab with 1-4 generated unk.def lines) and optional inhibited \
         pairs whose ids / costs are drawn from {-32769, -32768, -1, 0, n-1, n, n+1, 32767, 32768, 65535, 65536} or the valid range, POS present or absent x userPOS \
         allow / forbid / missing. Oracle: loading succeeds iff the explicit in-range predicate holds (left ids < second matrix size, right ids < first, costs fit i16, POS \
         known or allowed); it never panics; if it succeeds the connection matrix equals the model except exactly the inhibited cells and 12 texts are analysed with the \
         matrix index assertions on. Non-trivial: at least one parameter sits on a boundary value."
    }
    fn assumptions(&self) -> Vec<&'static str> {
        vec![
            "known finding F6a (SimpleOovPlugin / RegexOovProvider accept an id equal to the matrix size) is excluded by predicate and pinned by a reproducer",
            "the last provider must be able to produce a candidate: configurations whose analysis fails with an error value are fine, only panics count in the consequence clause",
        ]
    }
    fn strategy(&self, tier: Tier) -> BoxedStrategy<Case> {
        let dims = prop_oneof![8 => (1u16..=6, 1u16..=6), 2 => (1u16..=6).prop_map(|n| (n, n)), 1 => Just((200u16, 3u16)), 1 => Just((3u16, 200u16))];
        let _ = tier;
        dims.prop_flat_map(|(nl, nr)| {
            let simple = (boundary(nr), boundary(nl), cost_val(), pos_choice()).prop_map(|(left, right, cost, (pos, user_pos))| Plug::Simple { left, right, cost, pos, user_pos });
            let regex = (boundary(nr), boundary(nl), cost_val(), pos_choice()).prop_map(|(left, right, cost, (pos, user_pos))| Plug::Regex { left, right, cost, pos, user_pos });
            let line = (select(vec!["DEFAULT", "KANJI", "ALPHA", "NUMERIC", "KATAKANA", "HIRAGANA"]), boundary(nr), boundary(nl), cost_val(), prop_oneof![6 => select(vec![POS_NOUN, POS_SYM]), 1 => Just(POS_PLUGIN), 2 => select(vec![POS_NOUN_CONJ_A, POS_NOUN_CONJ_B, POS_SYM_CONJ])])
                .prop_map(|(cat, left, right, cost, pos)| UnkLine { cat: cat.to_string(), left, right, cost, pos: pos_from_str(pos) });
            let mecab = (vec(line, 1..=4), select(vec![None, Some(true), Some(false)])).prop_map(|(lines, user_pos)| Plug::Mecab { lines, user_pos });
            let cells = vec((0..nl, 0..nr, costs()), 0..8);
            (
                Just((nl, nr)),
                cells,
                vec(prop_oneof![3 => simple, 2 => regex, 2 => mecab], 1..=3),
                prop::option::weighted(0.4, vec((boundary(nl), boundary(nr)), 0..4)),
                vec(pool_string(8), 4..8),
            )
        })
        .prop_map(|((nl, nr), lines, oov, inhibit, texts)| Case { matrix: Matrix { nl, nr, lines }, oov, inhibit, texts })
        .boxed()
    }
    fn cases_per_shard(&self, tier: Tier) -> u32 {
        tier.pick(5000, 100000)
    }
    fn check(&self, case: &Case, ctx: &mut Ctx) -> Report {
        let mut rep = Report::default();
        let (nl, nr) = (case.matrix.nl, case.matrix.nr);
        let n = nl.min(nr) as i16;
        let dic = DicModel {
            matrix: case.matrix.clone(),
            system: vec![
                Entry::simple("1", 0, 0, 500, &pos_from_str(POS_NUM)),
                Entry::simple("a", n - 1, n - 1, 700, &pos_from_str(POS_NOUN)),
                Entry::simple("。", 0, n - 1, 100, &pos_from_str(POS_SYM)),
                Entry::simple("京都", n - 1, 0, 900, &pos_from_str(POS_NOUN)),
            ],
            users: vec![],
        };
        let v = expected(case);
        if v.boundary {
            rep.nontrivial = true;
        }
        if v.f6a && !ctx.strict {
            rep.excluded = Some("F6a");
            return rep;
        }
        let cfg = to_cfg(case);
        match build_world(&dic, &cfg, ctx) {
            Err(BuildError::Compile(e)) => {
                rep.fail("harness-compile", e);
            }
            Err(BuildError::Panic(p)) => {
                rep.fail(&format!("load-panic:{}", panic_site(&p)), format!("loading panicked: {}", p));
            }
            Err(BuildError::Load(e)) => {
                if v.ok {
                    rep.fail("rejected-valid", format!("every parameter is in range but loading failed: {}", e));
                } else {
                    rep.class("rejected as required");
                }
            }
            Ok((dict, _)) => {
                if !v.ok {
                    rep.fail("accepted-invalid", format!("loading succeeded although {}", v.why));
                    return rep;
                }
                rep.class("accepted");
                // (i) the matrix equals the model except exactly the inhibited cells
                let dense = case.matrix.dense();
                let inh: std::collections::BTreeSet<(u16, u16)> = case.inhibit.clone().unwrap_or_default().iter().map(|(a, b)| (*a as u16, *b as u16)).collect();
                let m = dict.grammar().conn_matrix();
                for l in 0..nl {
                    for r in 0..nr {
                        let want = if inh.contains(&(l, r)) { i16::MAX } else { dense[l as usize][r as usize] };
                        let got = m.cost(l, r);
                        if got != want {
                            rep.fail("matrix-cell", format!("cost({}, {}) = {} after loading, expected {} (inhibited pairs {:?})", l, r, got, want, case.inhibit));
                            return rep;
                        }
                    }
                }
                // (ii) analysis never leaves the matrix (debug assertions in connect.rs are the monitor)
                let mut texts = case.texts.clone();
                texts.extend(["a1。京都".to_string(), "アイウ漢字ab12".to_string(), "1a".to_string()]);
                // (iii) an unknown word carries a part of speech some configured provider / unk.def line declares
                let mut declared: Vec<Pos> = Vec::new();
                for p in &case.oov {
                    match p {
                        Plug::Simple { pos, .. } | Plug::Regex { pos, .. } => declared.push(pos.clone()),
                        Plug::Mecab { lines, .. } => declared.extend(lines.iter().map(|l| l.pos.clone())),
                    }
                }
                for t in &texts {
                    for mode in MODES {
                        let r = guarded(|| {
                            analyze(&dict, t, mode, None).map(|ml| {
                                consume_all(&dict, &ml, false);
                                ml.iter().filter(|m| m.is_oov()).map(|m| m.part_of_speech().to_vec()).find(|p| !declared.iter().any(|d| d.to_vec() == *p))
                            })
                        });
                        match r {
                            Err(p) => {
                                rep.fail(&format!("analysis-panic:{}", panic_site(&p)), format!("accepted configuration, text {:?}: {}", t, p));
                                return rep;
                            }
                            Ok(Ok(Some(p))) => {
                                rep.fail("oov-pos-not-declared", format!("text {:?}: an unknown word carries the part of speech {:?}, declared are {:?}", t, p, declared));
                                return rep;
                            }
                            _ => {}
                        }
                    }
                }
            }
        }
        rep
    }
    fn sample(&self, case: &Case) -> Value {
        json!({"matrix": format!("{} x {}", case.matrix.nl, case.matrix.nr), "oov": case.oov, "inhibit": case.inhibit, "expected_ok": expected(case).ok})
    }
}

pub fn fixtures() -> Vec<(&'static str, Case, &'static str)> {
    let m = Matrix { nl: 2, nr: 2, lines: vec![(0, 1, 5)] };
    vec![(
        "f6a-simple-id-equals-size.json",
        Case {
            matrix: m,
            oov: vec![Plug::Simple { left: 2, right: 0, cost: 100, pos: pos_from_str(POS_NOUN), user_pos: None }],
            inhibit: None,
            texts: vec!["あ".into()],
        },
        "F6a: SimpleOovPlugin with leftId 2 on a 2 x 2 matrix is accepted (check_left_id uses > instead of >=); analysis then trips the matrix index assertion",
    )]
}
