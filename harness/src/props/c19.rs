//! C19 — Python bindings and the CLI report exactly what the core library computes.
//!
//! Rust side: deterministic "worlds" (dictionary files + configuration on disk), the oracle
//! server used by the Hypothesis driver (py/c19_check.py), and the CLI differential.

use crate::common::*;
use crate::engine::*;
use crate::gen::*;
use crate::model::cfg::*;
use crate::model::dic::*;
use proptest::collection::vec;
use proptest::prelude::*;
use proptest::strategy::ValueTree;
use proptest::test_runner::{Config as PtConfig, RngSeed, TestRunner};
use serde::{Deserialize, Serialize};
use serde_json::{json, Value};
use std::io::{BufRead, Write};
use std::path::{Path, PathBuf};
use std::sync::OnceLock;
use sudachi::analysis::stateful_tokenizer::StatefulTokenizer;
use sudachi::analysis::stateless_tokenizer::DictionaryAccess;
use sudachi::analysis::Mode;
use sudachi::config::Config;
use sudachi::dic::dictionary::JapaneseDictionary;
use sudachi::dic::subset::InfoSubset;
use sudachi::prelude::MorphemeList;
use sudachi::sentence_splitter::{SentenceSplitter, SplitSentences};

pub const N_WORLDS: usize = 6;

pub struct World {
    pub dir: PathBuf,
    pub config: PathBuf,
    pub keys: Vec<String>,
    pub dict: JapaneseDictionary,
}

pub fn load_world_dict(dir: &Path) -> Result<JapaneseDictionary, String> {
    let cfg = Config::new(Some(dir.join("sudachi.json")), Some(dir.to_path_buf()), None).map_err(|e| format!("{}", e))?;
    JapaneseDictionary::from_cfg(&cfg).map_err(|e| format!("{}", e))
}

/// Writes `N_WORLDS` worlds under `base`: world0 is the repository's python test fixture, the
/// others are generated from `seed`.
pub fn write_worlds(base: &Path, seed: u64) -> Result<Vec<(PathBuf, Vec<String>)>, String> {
    let _ = std::fs::remove_dir_all(base);
    std::fs::create_dir_all(base).map_err(|e| e.to_string())?;
    let mut res = Vec::new();
    // world 0: repository fixture with absolute paths
    {
        let d = base.join("world0");
        std::fs::create_dir_all(&d).map_err(|e| e.to_string())?;
        let src = Path::new("/repo/python/tests/resources");
        for f in ["char.def", "rewrite.def", "unk.def"] {
            std::fs::copy(src.join(f), d.join(f)).map_err(|e| e.to_string())?;
        }
        // compile from the CSV sources so that the binary matches the tree under test
        let matrix = std::fs::read_to_string(src.join("matrix.def")).map_err(|e| e.to_string())?;
        let lex = std::fs::read_to_string(src.join("lex.csv")).map_err(|e| e.to_string())?;
        let sys = compile_system_text(&matrix, &lex)?;
        let u1 = compile_user_text(&sys, &std::fs::read_to_string(src.join("user1.csv")).map_err(|e| e.to_string())?)?;
        let u2 = compile_user_text(&sys, &std::fs::read_to_string(src.join("user2.csv")).map_err(|e| e.to_string())?)?;
        std::fs::write(d.join("system.dic"), &sys).map_err(|e| e.to_string())?;
        std::fs::write(d.join("user1.dic"), &u1).map_err(|e| e.to_string())?;
        std::fs::write(d.join("user2.dic"), &u2).map_err(|e| e.to_string())?;
        let abs = |f: &str| d.join(f).to_string_lossy().into_owned();
        let cfg = json!({
            "systemDict": abs("system.dic"),
            "userDict": [abs("user1.dic"), abs("user2.dic")],
            "characterDefinitionFile": abs("char.def"),
            "connectionCostPlugin": [],
            "inputTextPlugin": [{"class": "com.worksap.nlp.sudachi.DefaultInputTextPlugin", "rewriteDef": abs("rewrite.def")}],
            "oovProviderPlugin": [{"class": "com.worksap.nlp.sudachi.SimpleOovPlugin", "oovPOS": ["名詞", "普通名詞", "一般", "*", "*", "*"], "leftId": 8, "rightId": 8, "cost": 6000}],
            "pathRewritePlugin": [
                {"class": "com.worksap.nlp.sudachi.JoinNumericPlugin", "enableNormalize": true},
                {"class": "com.worksap.nlp.sudachi.JoinKatakanaOovPlugin", "oovPOS": ["名詞", "普通名詞", "一般", "*", "*", "*"], "minLength": 3}
            ],
        });
        std::fs::write(d.join("sudachi.json"), serde_json::to_string_pretty(&cfg).unwrap()).map_err(|e| e.to_string())?;
        let keys: Vec<String> = lex.lines().filter_map(|l| l.split(',').next().map(|s| s.to_string())).filter(|s| !s.is_empty()).collect();
        res.push((d, keys));
    }
    // generated worlds
    let mut dp = DicParams::small();
    dp.max_base = 14;
    dp.max_compound = 5;
    dp.alphabet = vec!["a", "b", "1", "2", "あ", "い", "ア", "イ", "ー", "京", "都", "東", "一", "十", "𠮷", "é", "。", ","];
    let strat = world(dp, CfgParams { input_plugins: true, generated_rewrite: false, oov_variety: true, path_rewrite: true, inhibit: true, force_fallback: true });
    let mut runner = TestRunner::new(PtConfig { rng_seed: RngSeed::Fixed(splitmix(seed ^ 0xC19)), failure_persistence: None, ..PtConfig::default() });
    let mut k = 1;
    let mut tries = 0;
    while k < N_WORLDS && tries < 200 {
        tries += 1;
        let (dic, mut cfg) = strat.new_tree(&mut runner).map_err(|e| e.to_string())?.current();
        if k == 1 {
            // one world always carries the whole bundled plugin stack: the three input-text plugins of the shipped
            // configuration (bracketed readings included) and a regex provider in front of the other OOV providers
            cfg.chardef = FileSrc::Shipped;
            cfg.input = vec![
                InputPlugin::Default { rewrite: FileSrc::Shipped },
                InputPlugin::Psm { marks: vec!['ー', '-', '⁓', '〜', '〰'], replacement: Some("ー".into()) },
                InputPlugin::Yomigana { left: vec!['(', '（'], right: vec![')', '）'], max_len: 4 },
            ];
            let n = dic.matrix.nl.min(dic.matrix.nr) as i64;
            cfg.oov.insert(0, OovPlugin::Regex { pos: pos_from_str(POS_PLUGIN), left: 0, right: (n - 1).max(0), cost: 2000, regex: "[A-Za-z]+-?[0-9]*[A-Za-z]*".into(), max_length: None, strict: None, user_pos: Some(true) });
            for p in cfg.oov.iter_mut() {
                if let OovPlugin::Mecab { chardef, unkdef, .. } = p {
                    *chardef = FileSrc::Shipped;
                    *unkdef = FileSrc::Text(small_unk_def(&FileSrc::Shipped, dic.matrix.nl.min(dic.matrix.nr), dic.matrix.nl.min(dic.matrix.nr)));
                }
            }
        }
        let d = base.join(format!("world{}", k));
        std::fs::create_dir_all(&d).map_err(|e| e.to_string())?;
        let compiled = match guarded(|| compile_model(&dic)) {
            Ok(Ok(c)) => c,
            _ => continue,
        };
        std::fs::write(d.join("system.dic"), &compiled.system).map_err(|e| e.to_string())?;
        let mut users = Vec::new();
        for (i, u) in compiled.users.iter().enumerate() {
            let p = d.join(format!("user{}.dic", i));
            std::fs::write(&p, u).map_err(|e| e.to_string())?;
            users.push(p.to_string_lossy().into_owned());
        }
        let mut j = cfg.to_json(&d);
        j["systemDict"] = json!(d.join("system.dic").to_string_lossy());
        j["userDict"] = json!(users);
        std::fs::write(d.join("sudachi.json"), serde_json::to_string_pretty(&j).unwrap()).map_err(|e| e.to_string())?;
        if load_world_dict(&d).is_err() {
            continue;
        }
        res.push((d, all_keys(&dic)));
        k += 1;
    }
    if res.len() < 2 {
        return Err("could not generate loadable worlds".into());
    }
    for (d, keys) in &res {
        std::fs::write(d.join("keys.json"), serde_json::to_string(keys).unwrap()).map_err(|e| e.to_string())?;
    }
    Ok(res)
}

// ------------------------------------------------------------------------------------------
// oracle server

fn morpheme_json(dict: &JapaneseDictionary, ml: &MorphemeList<&JapaneseDictionary>, with_splits: bool) -> Vec<Value> {
    let mut out = Vec::new();
    let mut spare = MorphemeList::empty(dict);
    for m in ml.iter() {
        let mut v = json!({
            "begin": m.begin_c(), "end": m.end_c(),
            "surface": &*m.surface(),
            "pos": m.part_of_speech(), "pos_id": m.part_of_speech_id(),
            "dictionary_form": m.dictionary_form(), "normalized_form": m.normalized_form(), "reading_form": m.reading_form(),
            "is_oov": m.is_oov(), "word_id": m.word_id().as_raw(), "dictionary_id": m.dictionary_id(),
            "synonym_group_ids": m.synonym_group_ids(),
        });
        if with_splits {
            for (name, mode) in [("split_A", Mode::A), ("split_B", Mode::B)] {
                spare.clear();
                let did = m.split_into(mode, &mut spare).unwrap_or(false);
                v[name] = json!({"split": did, "pieces": morpheme_json(dict, &spare, false)});
            }
        }
        out.push(v);
    }
    out
}

pub fn oracle_server(base: &Path) -> i32 {
    let mut dicts = Vec::new();
    for k in 0..N_WORLDS {
        let d = base.join(format!("world{}", k));
        if !d.exists() {
            break;
        }
        match load_world_dict(&d) {
            Ok(x) => dicts.push(x),
            Err(e) => {
                eprintln!("oracle: world {} does not load: {}", k, e);
                return 2;
            }
        }
    }
    let stdin = std::io::stdin();
    let stdout = std::io::stdout();
    let mut out = stdout.lock();
    for line in stdin.lock().lines() {
        let Ok(line) = line else { break };
        let req: Value = match serde_json::from_str(&line) {
            Ok(v) => v,
            Err(e) => {
                let _ = writeln!(out, "{}", json!({"ok": false, "error": format!("bad request: {}", e)}));
                let _ = out.flush();
                continue;
            }
        };
        let w = req["world"].as_u64().unwrap_or(0) as usize;
        let resp = if w >= dicts.len() {
            json!({"ok": false, "error": "no such world"})
        } else {
            let dict = &dicts[w];
            match req["op"].as_str() {
                Some("tokenize") => {
                    let text = req["text"].as_str().unwrap_or("");
                    let mode = match req["mode"].as_str() {
                        Some("A") => Mode::A,
                        Some("B") => Mode::B,
                        _ => Mode::C,
                    };
                    let subset = req["subset"].as_u64().map(|b| InfoSubset::from_bits_truncate(b as u32));
                    let r = guarded(|| {
                        let mut tok = StatefulTokenizer::new(dict, mode);
                        if let Some(s) = subset {
                            tok.set_subset(s);
                        }
                        tok.reset().push_str(text);
                        tok.do_tokenize()?;
                        let mut ml = MorphemeList::empty(dict);
                        ml.collect_results(&mut tok)?;
                        Ok::<_, sudachi::error::SudachiError>(morpheme_json(dict, &ml, true))
                    });
                    match r {
                        Ok(Ok(m)) => json!({"ok": true, "morphemes": m}),
                        Ok(Err(e)) => json!({"ok": false, "error": format!("{}", e)}),
                        Err(p) => json!({"ok": false, "panic": p}),
                    }
                }
                Some("lookup") => {
                    let s = req["surface"].as_str().unwrap_or("");
                    let mut ml = MorphemeList::empty(dict);
                    match guarded(|| ml.lookup(s, InfoSubset::all())) {
                        Ok(Ok(_)) => json!({"ok": true, "morphemes": morpheme_json(dict, &ml, false)}),
                        Ok(Err(e)) => json!({"ok": false, "error": format!("{}", e)}),
                        Err(p) => json!({"ok": false, "panic": p}),
                    }
                }
                _ => json!({"ok": false, "error": "unknown op"}),
            }
        };
        if writeln!(out, "{}", resp).is_err() {
            break;
        }
        let _ = out.flush();
    }
    0
}

// ------------------------------------------------------------------------------------------
// CLI differential (proptest driven)

#[derive(Clone, Debug, Serialize, Deserialize)]
pub struct Line {
    pub pieces: Vec<Piece>,
    /// 0 "\n", 1 "\r\n", 2 none (only meaningful for the last line)
    pub eol: u8,
}

#[derive(Clone, Debug, Serialize, Deserialize)]
pub struct Case {
    pub world: u8,
    pub lines: Vec<Line>,
    pub mode: u8,
    pub all: bool,
    pub wakati: bool,
    /// 0 yes, 1 no, 2 only
    pub split: u8,
    /// bit 0: the text is piped to standard input instead of being named as a file; bit 1: the output goes to `-o FILE`
    #[serde(default)]
    pub io: u8,
}

pub struct C19;

static WORLDS: OnceLock<Result<Vec<World>, String>> = OnceLock::new();

pub fn worlds_base() -> PathBuf {
    verif_root().join("work").join("c19")
}

fn worlds() -> &'static Result<Vec<World>, String> {
    WORLDS.get_or_init(|| {
        let base = worlds_base();
        let seed = std::env::var("VERIF_SEED").ok().and_then(|s| s.trim().parse::<i64>().ok()).unwrap_or(0) as u64;
        let ws = write_worlds(&base, seed)?;
        let mut out = Vec::new();
        for (d, keys) in ws {
            let dict = load_world_dict(&d)?;
            out.push(World { config: d.join("sudachi.json"), dir: d, keys, dict });
        }
        Ok(out)
    })
}

pub fn cli_binary() -> PathBuf {
    verif_root().join("target").join("repo").join("debug").join("sudachi")
}

fn line_piece() -> BoxedStrategy<Piece> {
    prop_oneof![
        8 => any::<u16>().prop_map(Piece::Key),
        3 => proptest::sample::select(vec!['。', '！', '?', '.', '、', '「', '」', ' ', 'あ', 'a', '1', '　', '\t', '\r']).prop_map(Piece::Ch),
        2 => pool_char().prop_map(Piece::Ch),
        1 => "[0-9一二十,.]{1,5}".prop_map(Piece::Num),
        // well-formed numerals with a thousands separator, a decimal point or units: the numeral plugin reads the
        // normalised forms of the digits and separators, which an output format that prints surfaces only does not need
        2 => prop_oneof!["[1-9][0-9]{0,2}(,[0-9]{3}){1,2}", "[0-9]{1,3}\\.[0-9]{1,3}", "[1-9][0-9]{0,2}(,[0-9]{3})\\.[0-9]{1,2}", "[一二三四五][十百千万][一二三]?", "[1-9][0-9]?[十百千万億]"].prop_map(Piece::Num),
        1 => Just(Piece::Ch('\r')),
    ]
    .boxed()
}

/// what the command line tool must print for this file
pub fn expected_output(w: &World, case: &Case, lines: &[String]) -> Result<String, String> {
    let mode = mode_of(case.mode);
    let mut out = String::new();
    let fmt = |ml: &MorphemeList<&JapaneseDictionary>, out: &mut String| {
        if case.wakati {
            let v: Vec<String> = ml.iter().map(|m| m.surface().to_string()).collect();
            out.push_str(&v.join(" "));
            out.push('\n');
        } else {
            for m in ml.iter() {
                out.push_str(&format!("{}\t{}\t{}", &*m.surface(), m.part_of_speech().join(","), m.normalized_form()));
                if case.all {
                    out.push_str(&format!("\t{}\t{}\t{}\t{:?}", m.dictionary_form(), m.reading_form(), m.dictionary_id(), m.synonym_group_ids()));
                    if m.is_oov() {
                        out.push_str("\t(OOV)");
                    }
                }
                out.push('\n');
            }
            out.push_str("EOS\n");
        }
    };
    let splitter = SentenceSplitter::new().with_checker(w.dict.lexicon());
    for l in lines {
        match case.split {
            2 => {
                for (_, s) in splitter.split(l) {
                    out.push_str(s);
                }
            }
            1 => {
                let ml = analyze(&w.dict, l, mode, None).map_err(|e| format!("{}", e))?;
                fmt(&ml, &mut out);
            }
            _ => {
                for (_, s) in splitter.split(l) {
                    let ml = analyze(&w.dict, s, mode, None).map_err(|e| format!("{}", e))?;
                    fmt(&ml, &mut out);
                }
            }
        }
    }
    Ok(out)
}

impl Property for C19 {
    type Case = Case;
    fn id(&self) -> &'static str {
        "C19"
    }
    fn rule(&self) -> &'static str {
        "two generated families on 6 worlds (the repository's python test fixture compiled from its CSV sources + 5 generated dictionary / configuration pairs, all loaded from files \
         exactly like the tools do): (a) CLI: files of 1-6 lines (dictionary words, sentence terminators, blank lines, CRLF, no final newline) x -m A|B|C x default | -a | -w x \
         --split-sentences yes|no|only are fed to the freshly built `sudachi` binary (named as a file or piped to standard input; output on standard output or through -o FILE); stdout must equal the README format applied to the library's own sentence splitting and \
         analysis of every line WITHOUT its terminator (`only`: compared modulo newlines). (b) Python (Hypothesis, py/c19_check.py, counted under classes python:*): call \
         histories over create(mode, fields, projection) / tokenize(text[, mode][, out=]) / indexing / every Morpheme accessor / split(mode[, out][, add_single]) / \
         Dictionary.lookup against the Rust oracle server; text[begin:end] must be the raw surface; the interpreter must not crash. Non-trivial: a CLI file with a blank or \
         CRLF line and >= 2 sentences on some line; a Python history with a mode override or out= reuse before a compared call."
    }
    fn assumptions(&self) -> Vec<&'static str> {
        vec![
            "both sides get the same complete configuration (every plugin list present) so that the Python package's default sudachi.json cannot leak in",
            "`--split-sentences only` has no documented layout: compared with newlines removed",
            "pre_tokenizer is not exercised (the `tokenizers` package is not installed)",
        ]
    }
    fn strategy(&self, _tier: Tier) -> BoxedStrategy<Case> {
        let line = (vec(line_piece(), 0..8), prop_oneof![4 => Just(0u8), 2 => Just(1u8)]).prop_map(|(pieces, eol)| Line { pieces, eol });
        // a filler line that puts its own line end on / next to a multiple of the 8 KiB block the tool reads in
        let filler = prop::option::weighted(0.2, (1usize..=3, -2i32..=2, proptest::sample::select(vec!["a", "あ", "a。"]), prop_oneof![1 => Just(0u8), 3 => Just(1u8)], 0usize..3));
        (0u8..N_WORLDS as u8, vec(line, 1..=6), 0u8..3, any::<bool>(), prop::bool::weighted(0.3), prop_oneof![3 => Just(0u8), 2 => Just(1u8), 1 => Just(2u8)], any::<bool>(), filler, prop_oneof![3 => Just(0u8), 1 => Just(1u8), 1 => Just(2u8), 1 => Just(3u8)])
            .prop_map(|(world, mut lines, mode, all, wakati, split, final_nl, filler, io)| {
                if let Some((k, d, unit, eol, at)) = filler {
                    // the filler is the first line, so its own line end lands exactly where asked
                    let (at, before) = (0usize * at, 0usize);
                    let target = (8192 * k) as i64 - 1 + d as i64 - before as i64;
                    let n = (target.max(1) as usize) / unit.len();
                    lines.insert(at, Line { pieces: vec![Piece::Rep(unit.to_string(), n as u32), Piece::Rep("x".into(), (target.max(1) as usize - n * unit.len()) as u32)], eol });
                }
                if !final_nl {
                    if let Some(l) = lines.last_mut() {
                        l.eol = 2;
                    }
                }
                Case { world, lines, mode, all, wakati, split, io }
            })
            .boxed()
    }
    fn cases_per_shard(&self, tier: Tier) -> u32 {
        tier.pick(40, 600)
    }
    fn sample(&self, case: &Case) -> Value {
        let keys = worlds().as_ref().map(|w| w[case.world as usize % w.len()].keys.clone()).unwrap_or_default();
        json!({"cli": {"world": case.world, "mode": mode_name(mode_of(case.mode)), "all": case.all, "wakati": case.wakati, "split": case.split, "stdin": case.io & 1 != 0, "output_file": case.io & 2 != 0,
               "file": case.lines.iter().map(|l| format!("{}{}", render_pieces(&keys, &l.pieces), ["\\n", "\\r\\n", ""][l.eol as usize % 3])).collect::<Vec<_>>()}})
    }
    fn check(&self, case: &Case, ctx: &mut Ctx) -> Report {
        let mut rep = Report::default();
        let ws = match worlds() {
            Ok(w) => w,
            Err(e) => {
                rep.fail("harness-worlds", e.clone());
                return rep;
            }
        };
        let w = &ws[case.world as usize % ws.len()];
        let bin = cli_binary();
        if !bin.exists() {
            rep.fail("harness-cli-binary", format!("{} was not built", bin.display()));
            return rep;
        }
        // file content; a line's own text must not contain line terminators
        let mut content = String::new();
        for l in &case.lines {
            // a carriage return may be part of a line's text (a\rb, a\r before a real CRLF, a last line that ends with it)
            let t: String = render_pieces(&w.keys, &l.pieces).chars().filter(|c| *c != '\n').collect();
            content.push_str(&t);
            content.push_str(["\n", "\r\n", ""][l.eol as usize % 3]);
        }
        // the lines of the file by the documented rule: a line ends with LF, and its terminator is (CR)? LF; a last
        // line without LF has no terminator (an empty one does not exist)
        let lines: Vec<String> = content
            .split_inclusive('\n')
            .map(|seg| seg.strip_suffix("\r\n").or_else(|| seg.strip_suffix('\n')).unwrap_or(seg).to_string())
            .collect();
        if lines.iter().any(|l| l.contains('\r')) {
            rep.class("cli:carriage return inside a line's text");
        }
        let expected = match expected_output(w, case, &lines) {
            Ok(e) => e,
            Err(_) => {
                rep.class("cli:library-error (not judged)");
                return rep;
            }
        };
        let _ = std::fs::create_dir_all(&ctx.dir);
        let input = ctx.dir.join("input.txt");
        if std::fs::write(&input, &content).is_err() {
            rep.fail("harness-io", "cannot write input file".to_string());
            return rep;
        }
        let mut cmd = std::process::Command::new(&bin);
        cmd.arg("-r").arg(&w.config).arg("-p").arg(&w.dir).arg("-m").arg(mode_name(mode_of(case.mode)));
        if case.all {
            cmd.arg("-a");
        }
        if case.wakati {
            cmd.arg("-w");
        }
        cmd.arg("--split-sentences").arg(["yes", "no", "only"][case.split as usize % 3]);
        let via_stdin = case.io & 1 != 0;
        let to_file = case.io & 2 != 0;
        let out_file = ctx.dir.join("output.txt");
        if to_file {
            let _ = std::fs::remove_file(&out_file);
            cmd.arg("-o").arg(&out_file);
        }
        if via_stdin {
            match std::fs::File::open(&input) {
                Ok(f) => {
                    cmd.stdin(std::process::Stdio::from(f));
                }
                Err(e) => {
                    rep.fail("harness-io", format!("{}", e));
                    return rep;
                }
            }
        } else {
            cmd.arg(&input);
        }
        let outp = match cmd.output() {
            Ok(o) => o,
            Err(e) => {
                rep.fail("harness-spawn", format!("{}", e));
                return rep;
            }
        };
        let stdout = if to_file {
            if !outp.stdout.is_empty() {
                rep.fail("cli-output", format!("file {:?}: with -o FILE the tool still wrote {:?} to standard output", content, String::from_utf8_lossy(&outp.stdout)));
                return rep;
            }
            match std::fs::read(&out_file) {
                Ok(b) => String::from_utf8_lossy(&b).to_string(),
                Err(e) if outp.status.success() => {
                    rep.fail("cli-output", format!("file {:?}: -o FILE was not written: {}", content, e));
                    return rep;
                }
                Err(_) => String::new(),
            }
        } else {
            String::from_utf8_lossy(&outp.stdout).to_string()
        };
        if via_stdin {
            rep.class("cli:text on standard input");
        }
        if to_file {
            rep.class("cli:output to -o FILE");
        }
        if !outp.status.success() {
            rep.fail("cli-exit-status", format!("file {:?}: exit {:?}, stderr {}", content, outp.status.code(), crate::driver::truncate(&String::from_utf8_lossy(&outp.stderr), 300)));
            return rep;
        }
        let same = if case.split % 3 == 2 { stdout.replace('\n', "") == expected.replace('\n', "") } else { stdout == expected };
        if !same {
            rep.fail("cli-output", format!("file {:?} (world {}, -m {}{}{} --split-sentences {}): stdout {:?}, expected {:?}", content, case.world, mode_name(mode_of(case.mode)), if case.all { " -a" } else { "" }, if case.wakati { " -w" } else { "" }, ["yes", "no", "only"][case.split as usize % 3], stdout, expected) + if case.io & 1 != 0 { " (text on standard input)" } else { "" } + if case.io & 2 != 0 { " (output to -o FILE)" } else { "" });
            return rep;
        }
        rep.class("cli");
        let blank_or_crlf = case.lines.iter().zip(lines.iter().chain(std::iter::repeat(&String::new()))).any(|(l, t)| l.eol % 3 == 1 || t.is_empty());
        let multi = {
            let sp = SentenceSplitter::new().with_checker(w.dict.lexicon());
            lines.iter().any(|l| sp.split(l).count() >= 2)
        };
        if blank_or_crlf && multi {
            rep.nontrivial = true;
        }
        if blank_or_crlf {
            rep.class("cli:blank or CRLF line");
        }
        rep
    }
    fn extra(&self, tier: Tier, seed: u64, _ctx: &mut Ctx, stats: &mut Stats) -> Vec<(Value, Failure)> {
        // the Python half: Hypothesis driver in a child interpreter
        let root = verif_root();
        let base = worlds_base();
        let result = root.join("work").join("c19-python-result.json");
        let _ = std::fs::remove_file(&result);
        let examples = tier.pick(300, 6000);
        let exe = std::env::current_exe().unwrap();
        let mut pycmd = std::process::Command::new("python3-vt");
        pycmd
            .arg(root.join("py").join("c19_check.py"))
            .arg("--lib").arg(root.join("work").join("pylib"))
            .arg("--worlds").arg(&base)
            .arg("--oracle").arg(&exe)
            .arg("--seed").arg(seed.to_string())
            .arg("--examples").arg(examples.to_string())
            .arg("--out").arg(&result)
            .arg("--replays").arg(root.join("replays").join("C19"));
        // single-threaded histories cannot block each other; the cap only keeps a stuck interpreter from stalling the run
        let status = match status_with_timeout(&mut pycmd, tier.pick(900, 7200)) {
            Ok(Some(st)) => Ok(st),
            Ok(None) => return vec![(json!({"python": "driver"}), Failure { clause: "python:driver-never-finishes".into(), detail: "the interpreter running the call histories did not finish within the time limit".into() })],
            Err(e) => Err(e),
        };
        let mut fails = Vec::new();
        let res: Option<Value> = std::fs::read_to_string(&result).ok().and_then(|t| serde_json::from_str(&t).ok());
        match (status, res) {
            (Ok(st), Some(v)) => {
                let n = v["examples"].as_u64().unwrap_or(0);
                let nt = v["nontrivial"].as_u64().unwrap_or(0);
                for i in 0..n {
                    stats.record(&format!("python-example-{}-{}", seed, i), i < nt, Some("python:history"));
                }
                stats.extra.insert("python".into(), v.clone());
                if let Some(f) = v.get("failure").filter(|f| !f.is_null()) {
                    fails.push((f["case"].clone(), Failure { clause: format!("python:{}", f["clause"].as_str().unwrap_or("?")), detail: f["detail"].as_str().unwrap_or("").to_string() }));
                } else if !st.success() {
                    fails.push((json!({"python": "driver"}), Failure { clause: "python:driver-exit".into(), detail: format!("driver exited with {:?}", st.code()) }));
                }
            }
            (Ok(st), None) => {
                // the interpreter died without writing a result: crash
                let last = std::fs::read_to_string(root.join("replays").join("C19").join("python-current.json")).ok().and_then(|t| serde_json::from_str::<Value>(&t).ok()).unwrap_or(Value::Null);
                fails.push((last, Failure { clause: "python:interpreter-crash".into(), detail: format!("the interpreter exited with {:?} without finishing", st) }));
            }
            (Err(e), _) => {
                fails.push((Value::Null, Failure { clause: "harness-python".into(), detail: format!("cannot start python3-vt: {}", e) }));
            }
        }
        fails
    }
}
