//! C05 — compile-then-load round trip preserves every dictionary field, deterministically and
//! independently of the alignment of the loaded bytes.

use crate::common::*;
use crate::engine::*;
use crate::gen::*;
use crate::model::cfg::CfgModel;
use crate::model::dic::*;
use proptest::collection::vec;
use proptest::prelude::*;
use serde::{Deserialize, Serialize};
use serde_json::{json, Value};
use std::fmt::Write as _;
use sudachi::analysis::stateless_tokenizer::DictionaryAccess;
use sudachi::analysis::Mode;
use sudachi::dic::dictionary::JapaneseDictionary;
use sudachi::dic::storage::{Storage, SudachiDicData};
use sudachi::dic::word_id::WordId;

#[derive(Clone, Debug, Serialize, Deserialize)]
pub struct Case {
    pub dic: DicModel,
    pub texts: Vec<Vec<Piece>>,
    /// an extra matrix line whose coordinates lie outside the declared size: the compiler may
    /// reject it, but if it accepts, no cell may change
    #[serde(default)]
    pub stray_line: Option<(i32, i32, i16)>,
}

pub struct C05;

fn expect_ids(dic: &DicModel, d: usize, refs: &[WRef]) -> Result<Vec<WordId>, String> {
    let mut v = Vec::new();
    for r in refs {
        match dic.resolve(d, r) {
            Some((dd, n)) => v.push(WordId::new(dd as u8, n)),
            None => return Err(format!("model cannot resolve {:?}", r)),
        }
    }
    Ok(v)
}

/// every observable of the loaded dictionary, as text (compared across alignments)
fn observe(dic: &DicModel, dict: &Dict, texts: &[String]) -> String {
    let mut s = String::new();
    let lex = dict.lexicon();
    let g = dict.grammar();
    for d in 0..dic.num_dics() {
        for n in 0..dic.dic(d).len() {
            let id = WordId::new(d as u8, n as u32);
            match lex.get_word_info(id) {
                Ok(wi) => {
                    let _ = write!(
                        s,
                        "{:?}|{}|{}|{}|{}|{}|{}|{}|{:?}|{:?}|{:?}|{:?}|{:?}\n",
                        id,
                        wi.surface(),
                        wi.head_word_length(),
                        wi.pos_id(),
                        wi.normalized_form(),
                        wi.dictionary_form_word_id(),
                        wi.dictionary_form(),
                        wi.reading_form(),
                        wi.a_unit_split(),
                        wi.b_unit_split(),
                        wi.word_structure(),
                        wi.synonym_group_ids(),
                        lex.get_word_param(id)
                    );
                }
                Err(e) => {
                    let _ = write!(s, "{:?} ERR {}\n", id, e);
                }
            }
        }
    }
    let _ = write!(s, "pos {:?}\n", g.pos_list);
    let m = g.conn_matrix();
    for l in 0..m.num_left() {
        for r in 0..m.num_right() {
            let _ = write!(s, "{} ", m.cost(l as u16, r as u16));
        }
    }
    s.push('\n');
    for t in texts {
        for mode in MODES {
            match analyze(dict, t, mode, None) {
                Ok(ml) => {
                    for m in ml.iter() {
                        let _ = write!(s, "{}..{}:{:?}:{} ", m.begin(), m.end(), m.word_id(), m.total_cost());
                    }
                    s.push('\n');
                }
                Err(e) => {
                    let _ = write!(s, "ERR {}\n", e);
                }
            }
        }
    }
    s
}

/// load `c` with every buffer shifted by `k` bytes relative to an 8-aligned allocation
fn with_alignment<R>(c: &Compiled, cfg: &sudachi::config::Config, k: usize, f: impl FnOnce(&JapaneseDictionary) -> R) -> Result<R, String> {
    fn shifted(bytes: &[u8], k: usize) -> (Vec<u64>, usize) {
        let words = (bytes.len() + k + 7) / 8 + 1;
        let mut buf = vec![0u64; words];
        let p = buf.as_mut_ptr() as *mut u8;
        // SAFETY: buf has at least bytes.len() + k bytes
        unsafe { std::ptr::copy_nonoverlapping(bytes.as_ptr(), p.add(k), bytes.len()) };
        (buf, bytes.len())
    }
    fn view(buf: &Vec<u64>, k: usize, len: usize) -> &'static [u8] {
        // SAFETY (harness only): the buffers outlive the dictionary, which is dropped before they are
        unsafe { std::slice::from_raw_parts((buf.as_ptr() as *const u8).add(k), len) }
    }
    let (sbuf, slen) = shifted(&c.system, k);
    let ubufs: Vec<(Vec<u64>, usize)> = c.users.iter().map(|u| shifted(u, k)).collect();
    let mut data = SudachiDicData::new(Storage::Borrowed(view(&sbuf, k, slen)));
    for (b, l) in &ubufs {
        data.add_user(Storage::Borrowed(view(b, k, *l)));
    }
    let r = match JapaneseDictionary::from_cfg_storage(cfg, data) {
        Ok(d) => {
            let r = f(&d);
            drop(d);
            Ok(r)
        }
        Err(e) => Err(format!("{}", e)),
    };
    drop(ubufs);
    drop(sbuf);
    r
}

impl Property for C05 {
    type Case = Case;
    fn id(&self) -> &'static str {
        "C05"
    }
    fn rule(&self) -> &'static str {
        "case = generated system + 0-2 user lexicons with strings at the 126/127/128/255/256 UTF-16-unit boundaries (ASCII, BMP, surrogate pairs), \\u escapes, \
         forms equal / different to the headword, headword != key, numeric / U-prefixed / inline references, 126-127 item arrays, matrices of any shape \
         with sparse text. Oracle: every field of every row through the public accessors == the model; every matrix cell == the matrix text; two \
         compilations byte-identical; observations identical for the 4 buffer alignments. Non-trivial: the dictionary holds a string of >= 126 UTF-16 \
         units, a surrogate pair, a word reference or an elided form."
    }
    fn assumptions(&self) -> Vec<&'static str> {
        vec![
            "dic_form of a user-dictionary row denotes a row of that same user dictionary (what the loader and the Java implementation do)",
            "an empty reading / normalised form is not generated: the format represents 'same as headword' by the empty string",
            "rows with cost -32768 in user dictionaries get a computed cost at load time: only (left, right) are compared for them",
        ]
    }
    fn strategy(&self, tier: Tier) -> BoxedStrategy<Case> {
        let mut dp = DicParams::small();
        dp.big_matrix = true;
        dp.boundaries = true;
        dp.escapes = true;
        dp.square_only = false;
        dp.max_dim = tier.pick(5, 12);
        dp.max_base = tier.pick(8, 20);
        (dic_model(dp), vec(pieces(8), 1..=3), prop::option::weighted(0.1, (0u8..4, 0i32..3, any::<i16>())))
            .prop_map(|(dic, texts, stray)| {
                let (nl, nr) = (dic.matrix.nl as i32, dic.matrix.nr as i32);
                let stray_line = stray.map(|(k, d, c)| match k {
                    0 => (nl + d, 0, c),
                    1 => (0, nr + d, c),
                    2 => (nl + d, nr + d, c),
                    _ => (nl, nr - 1, c),
                });
                Case { dic, texts, stray_line }
            })
            .boxed()
    }
    fn cases_per_shard(&self, tier: Tier) -> u32 {
        tier.pick(1500, 30000)
    }
    fn sample(&self, case: &Case) -> Value {
        json!({
            "matrix": case.dic.matrix.render(),
            "system_csv": crate::driver::truncate(&render_csv(&case.dic.system), 1500),
            "user_csv": case.dic.users.iter().map(|u| crate::driver::truncate(&render_csv(u), 600)).collect::<Vec<_>>(),
        })
    }
    fn check(&self, case: &Case, ctx: &mut Ctx) -> Report {
        let mut rep = Report::default();
        let dic = &case.dic;
        if let Some((l, r, c)) = case.stray_line {
            let mtext = format!("{}{} {} {}\n", dic.matrix.render(), l, r, c);
            match guarded(|| compile_system_text(&mtext, &render_csv(&dic.system))) {
                Ok(Ok(bytes)) => {
                    // accepted: every cell must still equal the in-range lines
                    let dense = dic.matrix.dense();
                    let ok = sudachi::dic::DictionaryLoader::read_system_dictionary(&bytes).ok().and_then(|l| l.grammar).map(|g| {
                        let m = g.conn_matrix();
                        (0..dic.matrix.nl).all(|a| (0..dic.matrix.nr).all(|b| m.cost(a, b) == dense[a as usize][b as usize]))
                    });
                    if ok != Some(true) {
                        rep.fail("matrix-stray-line", format!("matrix {:?}: the line with out-of-range coordinates was accepted and changed another cell", mtext));
                    }
                    rep.class("stray matrix line accepted");
                }
                Ok(Err(_)) => {
                    rep.class("stray matrix line rejected");
                }
                Err(p) => {
                    rep.fail("matrix-stray-line-panic", format!("matrix {:?}: {}", mtext, p));
                }
            }
            rep.nontrivial = true;
            return rep;
        }
        let compiled = match guarded(|| compile_model(dic)) {
            Ok(Ok(c)) => c,
            Ok(Err(e)) => {
                if std::env::var("VERIF_DEBUG").is_ok() {
                    eprintln!("REJECT {}", e);
                }
                rep.class("rejected");
                return rep;
            }
            Err(p) => {
                if std::env::var("VERIF_DEBUG").is_ok() {
                    eprintln!("REJECT panic {}", p);
                }
                rep.class("rejected");
                rep.class("rejected:compile-panic");
                return rep;
            }
        };
        // determinism: fresh builders, same inputs, same timestamp
        match guarded(|| compile_model(dic)) {
            Ok(Ok(c2)) => {
                if c2.system != compiled.system {
                    rep.fail("deterministic", "two compilations of the same system lexicon differ".to_string());
                    return rep;
                }
                for (a, b) in c2.users.iter().zip(compiled.users.iter()) {
                    if a != b {
                        rep.fail("deterministic", "two compilations of the same user lexicon differ".to_string());
                        return rep;
                    }
                }
            }
            other => {
                rep.fail("deterministic", format!("second compilation did not succeed: {:?}", other.map(|r| r.map(|_| ()))));
                return rep;
            }
        }
        let cfgm = CfgModel::minimal(&pos_from_str(POS_SYM));
        let config = match build_config(&cfgm, ctx) {
            Ok(c) => c,
            Err(e) => {
                rep.fail("harness-config", e);
                return rep;
            }
        };
        let dict = match guarded(|| load(&compiled, &config)) {
            Ok(Ok(d)) => d,
            Ok(Err(e)) => {
                rep.fail("load", format!("compiled dictionary does not load: {}", e));
                return rep;
            }
            Err(p) => {
                rep.fail("load-panic", p);
                return rep;
            }
        };
        let lex = dict.lexicon();
        let g = dict.grammar();
        // rows
        for d in 0..dic.num_dics() {
            for (n, e) in dic.dic(d).iter().enumerate() {
                let id = WordId::new(d as u8, n as u32);
                let wi = match guarded(|| lex.get_word_info(id)) {
                    Ok(Ok(w)) => w,
                    Ok(Err(er)) => {
                        rep.fail("word-info-error", format!("{:?}: {}", id, er));
                        return rep;
                    }
                    Err(p) => {
                        rep.fail("word-info-panic", format!("{:?}: {}", id, p));
                        return rep;
                    }
                };
                let bad = |rep: &mut Report, field: &str, got: String, want: String| {
                    rep.fail(&format!("field:{}", field), format!("dictionary {} row {} (key {:?}): {} = {} but declared {}", d, n, crate::driver::truncate(&e.key, 40), field, crate::driver::truncate(&got, 200), crate::driver::truncate(&want, 200)));
                };
                if wi.surface() != e.headword {
                    bad(&mut rep, "headword", format!("{:?}", wi.surface()), format!("{:?}", e.headword));
                    return rep;
                }
                if wi.head_word_length() != e.key.len() {
                    bad(&mut rep, "key-length", format!("{}", wi.head_word_length()), format!("{}", e.key.len()));
                    return rep;
                }
                let pos = g.pos_list.get(wi.pos_id() as usize).cloned().unwrap_or_default();
                if pos != e.pos.to_vec() {
                    bad(&mut rep, "pos", format!("{:?}", pos), format!("{:?}", e.pos));
                    return rep;
                }
                let (l, r, c) = lex.get_word_param(id);
                let auto = d > 0 && e.cost == i16::MIN;
                if l != e.left || r != e.right || (!auto && c != e.cost) {
                    bad(&mut rep, "params", format!("{:?}", (l, r, c)), format!("{:?}", (e.left, e.right, e.cost)));
                    return rep;
                }
                if wi.reading_form() != e.reading {
                    bad(&mut rep, "reading", format!("{:?}", wi.reading_form()), format!("{:?}", e.reading));
                    return rep;
                }
                if wi.normalized_form() != e.normalized {
                    bad(&mut rep, "normalized", format!("{:?}", wi.normalized_form()), format!("{:?}", e.normalized));
                    return rep;
                }
                let (want_df, want_dfid) = match &e.dic_form {
                    None => (e.headword.clone(), -1i32),
                    Some(WRef::Sys(t)) | Some(WRef::User(t)) => (dic.dic(d)[*t as usize].headword.clone(), *t as i32),
                    Some(_) => (e.headword.clone(), -1),
                };
                if wi.dictionary_form() != want_df || wi.dictionary_form_word_id() != want_dfid {
                    bad(&mut rep, "dictionary-form", format!("{:?}/{}", wi.dictionary_form(), wi.dictionary_form_word_id()), format!("{:?}/{}", want_df, want_dfid));
                    return rep;
                }
                for (name, got, refs) in [("split-a", wi.a_unit_split(), &e.split_a), ("split-b", wi.b_unit_split(), &e.split_b), ("word-structure", wi.word_structure(), &e.word_structure)] {
                    let want = match expect_ids(dic, d, refs) {
                        Ok(w) => w,
                        Err(m) => {
                            rep.fail("harness-model", m);
                            return rep;
                        }
                    };
                    if got != want.as_slice() {
                        bad(&mut rep, name, format!("{:?}", got), format!("{:?}", want));
                        return rep;
                    }
                    if !want.is_empty() {
                        rep.nontrivial = true;
                        rep.class("references");
                    }
                    if want.len() >= 126 {
                        rep.class("126+ item array");
                    }
                }
                if wi.synonym_group_ids() != e.synonyms.as_slice() {
                    bad(&mut rep, "synonyms", format!("{:?}", wi.synonym_group_ids()), format!("{:?}", e.synonyms));
                    return rep;
                }
                for s in [&e.key, &e.headword, &e.reading, &e.normalized] {
                    let u = s.encode_utf16().count();
                    if u >= 126 {
                        rep.nontrivial = true;
                        rep.class("string >= 126 units");
                    }
                    if s.chars().any(|c| c as u32 > 0xFFFF) {
                        rep.nontrivial = true;
                        rep.class("surrogate pair");
                    }
                }
                if e.reading == e.headword || e.normalized == e.headword {
                    rep.nontrivial = true;
                }
                if e.dic_form.is_some() {
                    rep.class("dic-form reference");
                }
            }
        }
        // matrix
        let m = g.conn_matrix();
        if m.num_left() != dic.matrix.nl as usize || m.num_right() != dic.matrix.nr as usize {
            rep.fail("matrix-shape", format!("{}x{} loaded, {}x{} declared", m.num_left(), m.num_right(), dic.matrix.nl, dic.matrix.nr));
            return rep;
        }
        let dense = dic.matrix.dense();
        for l in 0..dic.matrix.nl {
            for r in 0..dic.matrix.nr {
                let got = m.cost(l, r);
                if got != dense[l as usize][r as usize] {
                    rep.fail("matrix-cell", format!("cost({}, {}) = {} but the text says {}", l, r, got, dense[l as usize][r as usize]));
                    return rep;
                }
            }
        }
        if dic.matrix.nl != dic.matrix.nr {
            rep.class("non-square matrix");
        }
        // alignment independence
        let keys = all_keys(dic);
        let texts: Vec<String> = case.texts.iter().map(|t| render_pieces(&keys, t)).filter(|t| !f7_class(&case.dic, &CfgModel::minimal(&pos_from_str(POS_NOUN)), t)).collect();
        let base = observe(dic, &dict, &texts);
        for k in 0..4usize {
            match guarded(|| with_alignment(&compiled, &config, k, |d| observe(dic, d, &texts))) {
                Ok(Ok(o)) => {
                    if o != base {
                        let (a, b) = first_diff(&base, &o);
                        rep.fail("alignment", format!("observations differ when the dictionary bytes sit at offset {} of an aligned buffer: {:?} vs {:?}", k, a, b));
                        return rep;
                    }
                }
                Ok(Err(e)) => {
                    rep.fail("alignment-load", format!("offset {}: {}", k, e));
                    return rep;
                }
                Err(p) => {
                    rep.fail("alignment-panic", format!("offset {}: {}", k, p));
                    return rep;
                }
            }
        }
        let _ = Mode::C;
        rep
    }
}

fn first_diff(a: &str, b: &str) -> (String, String) {
    for (x, y) in a.lines().zip(b.lines()) {
        if x != y {
            return (crate::driver::truncate(x, 200), crate::driver::truncate(y, 200));
        }
    }
    ("<length>".into(), "<length>".into())
}
