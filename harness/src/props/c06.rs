//! C06 — the dictionary compiler is total and never emits an invalid dictionary.

use crate::common::*;
use crate::engine::*;
use crate::gen::*;
use crate::model::cfg::CfgModel;
use crate::model::dic::*;
use proptest::collection::vec;
use proptest::prelude::*;
use serde::{Deserialize, Serialize};
use serde_json::{json, Value};
use std::io::Write;
use sudachi::analysis::stateless_tokenizer::DictionaryAccess;
use sudachi::dic::build::DictBuilder;
use sudachi::dic::word_id::WordId;
use sudachi::dic::DictionaryLoader;

#[derive(Clone, Debug, Serialize, Deserialize)]
pub enum Case {
    /// compile these texts (user_csv: compiled against the system dictionary when that succeeded)
    Build { matrix: String, system_csv: String, user_csv: Option<String>, probes: Vec<String>, mutated: bool },
    /// compile a valid dictionary into a sink that fails at every byte offset in turn
    Sink { dic: DicModel, short_write: bool },
    /// the Python entry points of the compiler (build_system_dic / build_user_dic) on the same texts: same verdict and
    /// same bytes as the library, and with the output file limited to N bytes (limits: 16-bit fractions of the file
    /// size, negative = distance from its end) never a normal return
    PyBuild { matrix: String, system_csv: String, user_csv: Option<String>, limits: Vec<i32> },
}

pub struct C06;

// ------------------------------------------------------------------------------------------
// mutation catalogue

#[derive(Clone, Debug)]
enum Mut {
    Field(u16, u16, u16),
    DropField(u16, u16),
    DupField(u16, u16),
    Truncate(u16, u16),
    BlankLine(u16),
    DupRow(u16),
    RawLine(u16),
    MatHeader(u16),
    MatLine(u16, u16),
    MatWhole(u16),
}

fn mutation() -> BoxedStrategy<Mut> {
    prop_oneof![
        10 => (any::<u16>(), any::<u16>(), any::<u16>()).prop_map(|(a, b, c)| Mut::Field(a, b, c)),
        1 => (any::<u16>(), any::<u16>()).prop_map(|(a, b)| Mut::DropField(a, b)),
        1 => (any::<u16>(), any::<u16>()).prop_map(|(a, b)| Mut::DupField(a, b)),
        1 => (any::<u16>(), any::<u16>()).prop_map(|(a, b)| Mut::Truncate(a, b)),
        1 => any::<u16>().prop_map(Mut::BlankLine),
        1 => any::<u16>().prop_map(Mut::DupRow),
        1 => any::<u16>().prop_map(Mut::RawLine),
        2 => any::<u16>().prop_map(Mut::MatHeader),
        3 => (any::<u16>(), any::<u16>()).prop_map(|(a, b)| Mut::MatLine(a, b)),
        1 => any::<u16>().prop_map(Mut::MatWhole),
    ]
    .boxed()
}

fn hostile_value(col: usize, sel: u16, row: usize, nrows: usize, nl: u16, nr: u16) -> String {
    let pick = |v: Vec<String>| -> String { v[ix(sel, v.len())].clone() };
    let s = |x: &str| x.to_string();
    match col {
        0 | 4 => pick(vec![s(""), s("\\u0000a"), s("a\\u0000"), s("\\u12"), s("\\u{110000}"), s("\\uD800"), s("\\u{D800}"), "a".repeat(32768), "a".repeat(32767), "あ".repeat(10923), s("\\u{1F600}"), s("\""), s(" "), s("a,b")]),
        1 | 2 => {
            let n = if col == 1 { nl } else { nr } as i32;
            pick(vec![s("-1"), s("0"), (n - 1).to_string(), n.to_string(), (n + 1).to_string(), s("32767"), s("32768"), s("-32768"), s("-32769"), s("x"), s(""), s(" 1"), s("1 "), s("+1"), s("0x1"), s("-2"), s("65535"), s("1.0")])
        }
        3 => pick(vec![s("32767"), s("32768"), s("-32768"), s("-32769"), s("x"), s(""), s("1e3")]),
        5..=10 => pick(vec![s(""), "p".repeat(32768), s("\\u{110000}"), s("*"), s("新品詞")]),
        11 | 12 => pick(vec![s(""), "a".repeat(32768), "𠮷".repeat(16384), "𠮷".repeat(8192), s("\\uZZZZ"), s("\\u{}"), s("x")]),
        13 => pick(vec![s("*"), s("999999"), s("U0"), s("U999"), s("-1"), s("x"), row.to_string(), nrows.to_string(), (nrows.saturating_sub(1)).to_string(), s("268435456"), s("4294967295"), s("")]),
        14 => pick(vec![s("A"), s("B"), s("C"), s("*"), s("X"), s("BC"), s("a"), s(""), s(" b ")]),
        15 | 16 | 17 => pick(vec![
            s("*"),
            s(""),
            s("0/1"),
            s("999"),
            s("U0/U1"),
            s("a,b"),
            s("x,名詞"),
            row.to_string(),
            format!("{}/{}", row, row),
            vec!["0"; 127].join("/"),
            vec!["0"; 128].join("/"),
            s("0//1"),
            s("/"),
            s("U"),
            s("0/U0"),
            s("a,名詞,普通名詞,一般,*,*,*,a"),
            s("ない,名詞,普通名詞,一般,*,*,*,ナイ"),
            nrows.to_string(),
            s("268435455"),
            s("268435456"),
            // incomplete inline definitions of every length around small buffer sizes, multi-byte characters at every phase
            format!("{}{},名詞", "a".repeat(sel as usize % 3), "あ".repeat(1 + (sel as usize / 3) % 30)),
            format!("{}{},名詞,普通名詞,一般,*,*", "a".repeat(sel as usize % 3), "𠮷".repeat(1 + (sel as usize / 3) % 20)),
            format!("0/{}{}", "a".repeat(sel as usize % 3), "漢".repeat(1 + (sel as usize / 3) % 30)),
            format!("{},名詞,普通名詞,一般,*,*,*,{}", "あ".repeat(1 + sel as usize % 40), "ア".repeat(1 + sel as usize % 40)),
        ]),
        _ => pick(vec![s("*"), s(""), s("1/2"), s("x"), s("-1"), s("4294967295"), s("4294967296"), vec!["7"; 127].join("/"), vec!["7"; 128].join("/"), s("1//2")]),
    }
}

fn rows_of(entries: &[Entry]) -> Vec<Vec<String>> {
    // fields before CSV quoting
    entries
        .iter()
        .map(|e| {
            let line = render_entry(e);
            // re-split with a tiny CSV reader (fields are quoted only when needed)
            let mut fields = Vec::new();
            let mut cur = String::new();
            let mut inq = false;
            let cs: Vec<char> = line.chars().collect();
            let mut i = 0;
            while i < cs.len() {
                let c = cs[i];
                if inq {
                    if c == '"' {
                        if i + 1 < cs.len() && cs[i + 1] == '"' {
                            cur.push('"');
                            i += 1;
                        } else {
                            inq = false;
                        }
                    } else {
                        cur.push(c);
                    }
                } else if c == '"' {
                    inq = true;
                } else if c == ',' {
                    fields.push(std::mem::take(&mut cur));
                } else {
                    cur.push(c);
                }
                i += 1;
            }
            fields.push(cur);
            fields
        })
        .collect()
}

fn render_rows(rows: &[Vec<String>]) -> String {
    let mut s = String::new();
    for r in rows {
        let line: Vec<String> = r
            .iter()
            .map(|f| if f.contains(',') || f.contains('"') || f.contains('\n') || f.contains('\r') { format!("\"{}\"", f.replace('"', "\"\"")) } else { f.clone() })
            .collect();
        s.push_str(&line.join(","));
        s.push('\n');
    }
    s
}

fn apply_mutations(dic: &DicModel, muts: &[Mut], target_user: bool) -> (String, String, Option<String>) {
    let mut mat_lines: Vec<String> = dic.matrix.render().lines().map(|l| l.to_string()).collect();
    let mut sys = rows_of(&dic.system);
    let mut usr: Option<Vec<Vec<String>>> = dic.users.first().map(|u| rows_of(u));
    let (nl, nr) = (dic.matrix.nl, dic.matrix.nr);
    for m in muts {
        let rows: &mut Vec<Vec<String>> = if target_user && usr.is_some() { usr.as_mut().unwrap() } else { &mut sys };
        let n = rows.len();
        match m {
            Mut::Field(r, c, v) if n > 0 => {
                let ri = ix(*r, n);
                let ci = ix(*c, rows[ri].len().max(1));
                if ci < rows[ri].len() {
                    rows[ri][ci] = hostile_value(ci, *v, ri, n, nl, nr);
                }
            }
            Mut::DropField(r, c) if n > 0 => {
                let ri = ix(*r, n);
                if !rows[ri].is_empty() {
                    let ci = ix(*c, rows[ri].len());
                    rows[ri].remove(ci);
                }
            }
            Mut::DupField(r, c) if n > 0 => {
                let ri = ix(*r, n);
                if !rows[ri].is_empty() {
                    let ci = ix(*c, rows[ri].len());
                    let f = rows[ri][ci].clone();
                    rows[ri].insert(ci, f);
                }
            }
            Mut::Truncate(r, k) if n > 0 => {
                let ri = ix(*r, n);
                let keep = ix(*k, rows[ri].len() + 1);
                rows[ri].truncate(keep);
            }
            Mut::BlankLine(r) => {
                let ri = ix(*r, n + 1);
                rows.insert(ri, vec![]);
            }
            Mut::DupRow(r) if n > 0 => {
                let ri = ix(*r, n);
                let row = rows[ri].clone();
                rows.push(row);
            }
            Mut::RawLine(k) => {
                let raw = ["\"unterminated", "a,b", ",,,,,,,,,,,,,,,,,,", "\u{feff}x,0,0,0,x,a,b,c,d,e,f,x,x,*,A,*,*,*,*", "x,0,0,0,x,a,b,c,d,e,f,x,x,*,A,*,*,*,*,extra,extra"];
                rows.push(vec![raw[ix(*k, raw.len())].to_string()]);
                // raw lines are emitted verbatim below (single field without quoting rules): mark with a leading \u{1}
                let last = rows.last_mut().unwrap();
                last[0] = format!("\u{1}RAW{}", last[0]);
            }
            Mut::MatHeader(k) => {
                let long = format!("{}{}", " ".repeat(*k as usize % 3), "あ".repeat(1 + (*k as usize / 3) % 30));
                let h = ["0 0", "-1 3", "3 -1", "0 5", "x y", "2", "", "2 2 2", "1 1", "2\t3", " 2 2 ", long.as_str()];
                if !mat_lines.is_empty() {
                    mat_lines[0] = h[ix(*k, h.len())].to_string();
                }
            }
            Mut::MatLine(i, k) => {
                let cand = [
                    format!("{} 0 5", nl),
                    format!("0 {} 5", nr),
                    format!("{} {} 5", nl + 1, nr + 1),
                    "-1 0 5".to_string(),
                    "0 -1 5".to_string(),
                    "0 0 32768".to_string(),
                    "0 0".to_string(),
                    "0 0 x".to_string(),
                    "0 0 1 1".to_string(),
                    "a b c".to_string(),
                    "32767 32767 1".to_string(),
                    format!("{} {} -32768", nl.saturating_sub(1), nr.saturating_sub(1)),
                    "   ".to_string(),
                    // incomplete / non-numeric lines of every length around small buffer sizes, multi-byte characters at every phase
                    format!("{}0 {}", " ".repeat(*k as usize % 3), "あ".repeat(1 + (*k as usize / 3) % 30)),
                    format!("{} 0", "𠮷".repeat(1 + *k as usize % 20)),
                    format!("0 0 {}", "漢".repeat(1 + *k as usize % 30)),
                ];
                let at = ix(*i, mat_lines.len() + 1).max(1).min(mat_lines.len());
                mat_lines.insert(at, cand[ix(*k, cand.len())].clone());
            }
            Mut::MatWhole(k) => match ix(*k, 4) {
                0 => mat_lines.clear(),
                1 => mat_lines = vec!["   ".to_string(), "".to_string()],
                2 => {
                    if !mat_lines.is_empty() {
                        mat_lines.remove(0);
                    }
                }
                _ => mat_lines.insert(0, "".to_string()),
            },
            _ => {}
        }
    }
    let fix_raw = |s: String| -> String {
        // undo quoting of raw lines
        s.lines()
            .map(|l| {
                let l2 = l.trim_matches('"');
                if let Some(rest) = l2.strip_prefix("\u{1}RAW") {
                    rest.replace("\"\"", "\"")
                } else {
                    l.to_string()
                }
            })
            .collect::<Vec<_>>()
            .join("\n")
            + "\n"
    };
    let matrix = if mat_lines.is_empty() { String::new() } else { mat_lines.join("\n") + "\n" };
    (matrix, fix_raw(render_rows(&sys)), usr.map(|u| fix_raw(render_rows(&u))))
}

// ------------------------------------------------------------------------------------------

struct FailingSink {
    fail_at: usize,
    written: usize,
    short: bool,
    failed: bool,
}

impl Write for FailingSink {
    fn write(&mut self, buf: &[u8]) -> std::io::Result<usize> {
        if self.written + buf.len() <= self.fail_at {
            self.written += buf.len();
            return Ok(buf.len());
        }
        let room = self.fail_at - self.written;
        if self.short && room > 0 {
            self.written += room;
            return Ok(room);
        }
        self.failed = true;
        Err(std::io::Error::new(std::io::ErrorKind::Other, "sink failure injected"))
    }
    fn flush(&mut self) -> std::io::Result<()> {
        Ok(())
    }
}

/// Ok(bytes) | Err(stage) ; panics are returned as Err(("panic:<stage>", msg))
fn compile_system(matrix: &str, csv: &str) -> Result<Result<Vec<u8>, String>, (String, String)> {
    compile_system_files(matrix, &[csv])
}

fn compile_system_files(matrix: &str, csvs: &[&str]) -> Result<Result<Vec<u8>, String>, (String, String)> {
    let mut b = DictBuilder::new_system();
    b.set_compile_time(fixed_time());
    macro_rules! stage {
        ($name:expr, $e:expr) => {
            match guarded(|| $e) {
                Ok(Ok(_)) => {}
                Ok(Err(e)) => return Ok(Err(format!("{}: {}", $name, e))),
                Err(p) => return Err((format!("panic:{}:{}", $name, panic_site(&p)), p)),
            }
        };
    }
    stage!("read_conn", b.read_conn(matrix.as_bytes()));
    for csv in csvs {
        stage!("read_lexicon", b.read_lexicon(csv.as_bytes()));
    }
    stage!("resolve", b.resolve());
    let mut out = Vec::new();
    stage!("compile", b.compile(&mut out));
    Ok(Ok(out))
}

fn compile_user(system: &[u8], csv: &str) -> Result<Result<Vec<u8>, String>, (String, String)> {
    let loaded = match DictionaryLoader::read_system_dictionary(system).ok().and_then(|l| l.to_loaded()) {
        Some(l) => l,
        None => return Ok(Err("system dictionary unreadable".into())),
    };
    let mut b = DictBuilder::new_user(&loaded);
    b.set_compile_time(fixed_time());
    macro_rules! stage {
        ($name:expr, $e:expr) => {
            match guarded(|| $e) {
                Ok(Ok(_)) => {}
                Ok(Err(e)) => return Ok(Err(format!("{}: {}", $name, e))),
                Err(p) => return Err((format!("panic:user:{}:{}", $name, panic_site(&p)), p)),
            }
        };
    }
    stage!("read_lexicon", b.read_lexicon(csv.as_bytes()));
    stage!("resolve", b.resolve());
    let mut out = Vec::new();
    stage!("compile", b.compile(&mut out));
    Ok(Ok(out))
}

/// The "valid dictionary" predicate of the statement, judged through the public loader.
fn validate(rep: &mut Report, compiled: &Compiled, probes: &[String], ctx: &Ctx) {
    let cfgm = CfgModel::minimal(&pos_from_str(POS_SYM));
    let config = match build_config(&cfgm, ctx) {
        Ok(c) => c,
        Err(e) => {
            rep.fail("harness-config", e);
            return;
        }
    };
    let dict = match guarded(|| load(compiled, &config)) {
        Ok(Ok(d)) => d,
        Ok(Err(e)) => {
            // the fallback provider of the probe configuration uses ids (0,0): a dictionary whose
            // matrix is empty cannot host it; that is the probe's limitation, not the dictionary's
            let g = DictionaryLoader::read_system_dictionary(&compiled.system).ok().and_then(|l| l.grammar.map(|g| (g.conn_matrix().num_left(), g.conn_matrix().num_right())));
            if let Some((0, _)) | Some((_, 0)) = g {
                rep.class("accepted:empty-matrix");
                return;
            }
            rep.fail("valid:loads", format!("the compiler reported success but the dictionary does not load: {}", e));
            return;
        }
        Err(p) => {
            rep.fail(&format!("valid:load-panic:{}", panic_site(&p)), format!("the compiler reported success but loading panics: {}", p));
            return;
        }
    };
    let lex = dict.lexicon();
    let m = dict.grammar().conn_matrix();
    let (nleft, nright) = (m.num_left(), m.num_right());
    let sizes: Vec<u32> = {
        let mut v = vec![DictionaryLoader::read_system_dictionary(&compiled.system).map(|l| l.lexicon.size()).unwrap_or(0)];
        for u in &compiled.users {
            v.push(DictionaryLoader::read_user_dictionary(u).map(|l| l.lexicon.size()).unwrap_or(0));
        }
        v
    };
    let mut surfaces: Vec<String> = Vec::new();
    for (d, size) in sizes.iter().enumerate() {
        for w in 0..*size {
            let id = WordId::new(d as u8, w);
            let (l, r, _c) = lex.get_word_param(id);
            if l >= 0 {
                // an indexed word can appear on either side of a connection: its right id selects
                // a "left" line of the matrix, its left id a "right" one
                if r < 0 || (r as usize) >= nleft || (l as usize) >= nright {
                    rep.fail("valid:conn-ids", format!("indexed word {:?} has connection ids ({}, {}) but the matrix is {} x {}", id, l, r, nleft, nright));
                    return;
                }
            }
            let wi = match guarded(|| lex.get_word_info(id)) {
                Ok(Ok(w)) => w,
                Ok(Err(e)) => {
                    rep.fail("valid:word-info", format!("word {:?} cannot be read: {}", id, e));
                    return;
                }
                Err(p) => {
                    rep.fail(&format!("valid:word-info-panic:{}", panic_site(&p)), format!("reading word {:?} panics: {}", id, p));
                    return;
                }
            };
            let df = wi.dictionary_form_word_id();
            if df >= 0 && (df as u32) >= *size {
                rep.fail("valid:dic-form-ref", format!("word {:?} names dictionary form {} but its dictionary has {} words", id, df, size));
                return;
            }
            for (name, refs) in [("split-a", wi.a_unit_split()), ("split-b", wi.b_unit_split()), ("word-structure", wi.word_structure())] {
                for t in refs {
                    let td = t.dic() as usize;
                    if td >= sizes.len() || t.word() >= sizes[td] || (td != 0 && td != d) {
                        rep.fail("valid:word-ref", format!("word {:?} {} refers to {:?} which does not exist (dictionary sizes {:?})", id, name, t, sizes));
                        return;
                    }
                }
            }
            if surfaces.len() < 40 {
                surfaces.push(wi.surface().to_string());
            }
        }
    }
    // known finding F15: declared split units whose keys do not concatenate to the word's key make
    // analysis (mode A/B, split_into) cut outside the word or inside a character. Judged on the loaded
    // dictionary: a word with >= 2 units is well formed when headword == key for it and its units and
    // the unit headwords concatenate to its headword.
    if !ctx.strict {
        for (d, size) in sizes.iter().enumerate() {
            for w in 0..*size {
                let id = WordId::new(d as u8, w);
                let Ok(wi) = lex.get_word_info(id) else { continue };
                for units in [wi.a_unit_split(), wi.b_unit_split()] {
                    if units.len() < 2 {
                        continue;
                    }
                    let mut ok = wi.surface().len() == wi.head_word_length();
                    let mut cat = String::new();
                    for u in units {
                        match lex.get_word_info(*u) {
                            Ok(ui) => {
                                ok &= ui.surface().len() == ui.head_word_length();
                                cat.push_str(ui.surface());
                            }
                            Err(_) => ok = false,
                        }
                    }
                    if !ok || cat != wi.surface() {
                        rep.excluded = Some("F15");
                        return;
                    }
                }
            }
        }
    }
    // analyse texts built from the dictionary's own words
    let mut texts: Vec<String> = probes.to_vec();
    texts.extend(surfaces.iter().cloned());
    for i in 0..surfaces.len().min(8) {
        for j in 0..surfaces.len().min(8) {
            texts.push(format!("{}{}", surfaces[i], surfaces[j]));
        }
    }
    for text in texts.iter().filter(|t| t.len() <= 600) {
        for mode in MODES {
            let r = guarded(|| match analyze(&dict, text, mode, None) {
                Ok(ml) => {
                    consume_all(&dict, &ml, false);
                    check_partition(text, &ml).map(|_| ())
                }
                Err(e) => Err(("error".to_string(), format!("{}", e))),
            });
            match r {
                Ok(Ok(())) => {}
                Ok(Err((clause, detail))) => {
                    rep.fail(&format!("valid:analyses:{}", clause), format!("text {:?} mode {}: {}", crate::driver::truncate(text, 60), mode_name(mode), detail));
                    return;
                }
                Err(p) => {
                    rep.fail(&format!("valid:analyses-panic:{}", panic_site(&p)), format!("text {:?} mode {}: {}", crate::driver::truncate(text, 60), mode_name(mode), p));
                    return;
                }
            }
        }
    }
}

impl Property for C06 {
    type Case = Case;
    fn id(&self) -> &'static str {
        "C06"
    }
    fn rule(&self) -> &'static str {
        "cases: (a) a valid generated (matrix, system CSV, optional user CSV) with 0-3 edits from a catalogue (drop/duplicate/truncate fields, blank and raw \
         lines, non-numeric / out-of-range / boundary ids n-1, n, n+1, -1, 32767, 32768, over-long strings, bad \\u escapes, NUL in keys, unknown modes, dangling / \
         self / over-long / malformed split, dic-form, word-structure and synonym lists, matrix header and line damage, empty files); every builder stage must return \
         Ok or Err without panicking, and when compile reports success the dictionary must be valid: ids inside the matrix, references to existing rows, loads, \
         and analyses texts built from its own words in all modes with all accessors and the C01 partition; (b) a valid dictionary compiled into a sink that fails \
         (or short-writes and then fails) at every byte offset k: the result must be Err for every k < size. Non-trivial: a mutated input / a sink sweep."
    }
    fn assumptions(&self) -> Vec<&'static str> {
        vec![
            "'ids inside the matrix' is judged in the dimension the id actually indexes during analysis (right id < first header number, left id < second)",
            "the probe configuration is the minimal one (SimpleOovPlugin with ids 0,0); a dictionary with an empty matrix cannot host it and is only loaded structurally",
        ]
    }
    fn strategy(&self, tier: Tier) -> BoxedStrategy<Case> {
        let mut dp = DicParams::small();
        dp.max_base = tier.pick(6, 12);
        dp.max_users = 1;
        dp.square_only = false;
        dp.escapes = true;
        dp.big_matrix = true;
        dp.homographs = 130;
        let build = (dic_model(dp.clone()), vec(mutation(), 0..=3), any::<bool>(), vec(pool_string(6), 0..3)).prop_map(|(dic, muts, target_user, probes)| {
            let (matrix, system_csv, user_csv) = apply_mutations(&dic, &muts, target_user);
            let mut probes = probes;
            probes.extend(all_keys(&dic).into_iter().take(6));
            Case::Build { matrix, system_csv, user_csv, probes, mutated: !muts.is_empty() }
        });
        let mut sp = DicParams::small();
        sp.max_base = 4;
        sp.max_compound = 1;
        sp.max_users = 0;
        // the sweep recompiles once per output byte: keep the swept dictionary small
        sp.homographs = 0;
        sp.many_units = false;
        let sink = (dic_model(sp), any::<bool>()).prop_map(|(dic, short_write)| Case::Sink { dic, short_write });
        prop_oneof![tier.pick(60, 40) => build, 1 => sink].boxed()
    }
    fn cases_per_shard(&self, tier: Tier) -> u32 {
        tier.pick(4000, 80000)
    }
    fn check(&self, case: &Case, ctx: &mut Ctx) -> Report {
        let mut rep = Report::default();
        match case {
            Case::Build { matrix, system_csv, user_csv, probes, mutated } => {
                if *mutated {
                    rep.nontrivial = true;
                }
                // input class of known finding F27: a key of tens of thousands of bytes (the trie builder recurses
                // once per key byte and overflows an 8 MiB stack near 32,700 bytes)
                let long_key = |csv: &str| csv.lines().any(|l| l.split(',').next().map(|k| k.len() > 16_000).unwrap_or(false));
                if !ctx.strict && (long_key(system_csv) || user_csv.as_deref().map(long_key).unwrap_or(false)) {
                    rep.excluded = Some("F27");
                    return rep;
                }
                let sys = match compile_system(matrix, system_csv) {
                    Err((clause, msg)) => {
                        rep.fail(&clause, format!("compiling panicked: {}", msg));
                        return rep;
                    }
                    Ok(Err(_e)) => {
                        rep.class("rejected-with-error");
                        return rep;
                    }
                    Ok(Ok(b)) => b,
                };
                rep.class("system accepted");
                // the same rows offered as two lexicon files (two read_lexicon calls on one builder) are the same dictionary
                // (rows are cut apart at line ends outside quoted fields; texts that were mutated are only cut when they have no quotes)
                if !*mutated || !system_csv.contains('"') {
                    let mut inq = false;
                    let mut ends: Vec<usize> = Vec::new();
                    for (i, b) in system_csv.bytes().enumerate() {
                        if b == b'"' {
                            inq = !inq;
                        } else if b == b'\n' && !inq {
                            ends.push(i + 1);
                        }
                    }
                    let cuts: Vec<usize> = ends.into_iter().filter(|i| *i < system_csv.len() && !system_csv[*i..].starts_with('\u{feff}')).collect(); // a byte order mark is only skipped at the start of a file
                    if !cuts.is_empty() {
                        let at = cuts[(system_csv.len() * 7 + matrix.len()) % cuts.len()];
                        match compile_system_files(matrix, &[&system_csv[..at], &system_csv[at..]]) {
                            Err((clause, msg)) => {
                                rep.fail(&format!("two-files:{}", clause), format!("the lexicon given as two files (cut at byte {}): compiling panicked: {}", at, msg));
                                return rep;
                            }
                            Ok(Err(e)) => {
                                rep.fail("two-files-refused", format!("the lexicon compiles as one file; given as two files (cut at byte {}) it is refused: {}", at, e));
                                return rep;
                            }
                            Ok(Ok(b2)) => {
                                if b2 != sys {
                                    rep.fail("two-files-differ", format!("the lexicon given as two files (cut at byte {}) compiles to {} bytes that differ from the {} bytes of the one-file build", at, b2.len(), sys.len()));
                                    return rep;
                                }
                                rep.class("system accepted: two lexicon files give the same dictionary");
                            }
                        }
                    }
                }
                let mut compiled = Compiled { system: sys, users: vec![] };
                validate(&mut rep, &compiled, probes, ctx);
                if rep.failed() {
                    return rep;
                }
                if let Some(u) = user_csv {
                    match compile_user(&compiled.system, u) {
                        Err((clause, msg)) => {
                            rep.fail(&clause, format!("compiling the user dictionary panicked: {}", msg));
                            return rep;
                        }
                        Ok(Err(_)) => {
                            rep.class("user rejected-with-error");
                        }
                        Ok(Ok(b)) => {
                            rep.class("user accepted");
                            compiled.users.push(b);
                            validate(&mut rep, &compiled, probes, ctx);
                        }
                    }
                }
            }
            Case::PyBuild { matrix, system_csv, user_csv, limits } => {
                let long_key = |csv: &str| csv.lines().any(|l| l.split(',').next().map(|k| k.len() > 16_000).unwrap_or(false));
                if !ctx.strict && (long_key(system_csv) || user_csv.as_deref().map(long_key).unwrap_or(false)) {
                    rep.excluded = Some("F27");
                    return rep;
                }
                let root = verif_root();
                let lib = root.join("work").join("pylib");
                if !lib.join("sudachipy").join("sudachipy.so").exists() {
                    rep.fail("harness-python", "work/pylib/sudachipy/sudachipy.so is missing (./check builds it)".to_string());
                    return rep;
                }
                let sys = match compile_system(matrix, system_csv) {
                    Err(_) => {
                        rep.class("python-build: the library panics on this input (judged by the Build family)");
                        return rep;
                    }
                    Ok(r) => r,
                };
                std::fs::create_dir_all(&ctx.dir).ok();
                let dir = ctx.dir.join("pybuild");
                let _ = std::fs::remove_dir_all(&dir);
                let input = json!({"matrix": matrix, "csv": system_csv, "user_csv": user_csv, "limits": limits, "dir": dir});
                let mut cmd = std::process::Command::new("python3-vt");
                cmd.arg(root.join("py").join("c06_build.py")).arg(&lib).stdin(std::process::Stdio::piped()).stdout(std::process::Stdio::piped()).stderr(std::process::Stdio::null());
                let out = cmd.spawn().and_then(|mut ch| {
                    ch.stdin.take().unwrap().write_all(input.to_string().as_bytes())?;
                    ch.wait_with_output()
                });
                let out = match out {
                    Ok(o) => o,
                    Err(e) => {
                        rep.fail("harness-python", format!("cannot run python3-vt: {}", e));
                        return rep;
                    }
                };
                let res: Value = match serde_json::from_slice(&out.stdout) {
                    Ok(v) => v,
                    Err(_) => {
                        rep.fail("python-build-crash", format!("the interpreter running build_system_dic / build_user_dic ended with {:?} without a result", out.status));
                        return rep;
                    }
                };
                let same = |a: &[u8], b: &[u8]| a.len() == b.len() && a.len() >= 272 && a[..8] == b[..8] && a[272..] == b[272..];
                // (a) same verdict, same bytes (the header carries the time of the build and the description)
                let py_sys = res["system"]["size"].as_u64();
                if res["system"]["outcome"] == "panicked" {
                    rep.fail("python-build-panics", format!("build_system_dic: {}", res["system"]["error"]));
                    return rep;
                }
                match (&sys, py_sys) {
                    (Ok(b), Some(_)) => {
                        let got = std::fs::read(dir.join("system.dic")).unwrap_or_default();
                        if !same(&got, b) {
                            rep.fail("python-build-differs", format!("build_system_dic wrote {} bytes that differ from the {} bytes DictBuilder::compile writes for the same texts", got.len(), b.len()));
                            return rep;
                        }
                        rep.class("python-build: system dictionary identical to the library's");
                    }
                    (Err(_), None) => {
                        rep.class("python-build: both refuse");
                    }
                    (Ok(_), None) => {
                        rep.fail("python-build-raises", format!("build_system_dic raised {} for texts the library compiles", res["system"]["error"]));
                        return rep;
                    }
                    (Err(e), Some(_)) => {
                        rep.fail("python-build-succeeds", format!("build_system_dic succeeded for texts the library refuses with {}", e));
                        return rep;
                    }
                }
                if let (Ok(b), Some(u), Some(pu)) = (&sys, user_csv, res.get("user").filter(|u| !u.is_null())) {
                    if pu["outcome"] == "panicked" {
                        rep.fail("python-build-panics", format!("build_user_dic: {}", pu["error"]));
                        return rep;
                    }
                    match (compile_user(b, u), pu["size"].as_u64()) {
                        (Ok(Ok(ub)), Some(_)) => {
                            let got = std::fs::read(dir.join("user.dic")).unwrap_or_default();
                            if !same(&got, &ub) {
                                rep.fail("python-build-differs", format!("build_user_dic wrote {} bytes that differ from the {} bytes of the library", got.len(), ub.len()));
                                return rep;
                            }
                            rep.class("python-build: user dictionary identical to the library's");
                        }
                        (Ok(Err(_)), None) => rep.class("python-build: both refuse the user dictionary"),
                        // build_user_dic loads the system dictionary under the package's default configuration, whose OOV
                        // plugin needs 名詞,普通名詞,一般,*,*,* in it: a load failure there says nothing about the compiler
                        (Ok(Ok(_)), None) if pu["error"].as_str().unwrap_or("").contains("system.dic") => rep.class("python-build: user build not judged (the system dictionary does not load under the package's default configuration)"),
                        (Ok(Ok(_)), None) => {
                            rep.fail("python-build-raises", format!("build_user_dic raised {} for texts the library compiles", pu["error"]));
                            return rep;
                        }
                        (Ok(Err(e)), Some(_)) => {
                            rep.fail("python-build-succeeds", format!("build_user_dic succeeded for texts the library refuses with {}", e));
                            return rep;
                        }
                        (Err(_), _) => {}
                    }
                }
                // (b) the output file may not grow beyond N bytes: never a normal return
                for r in res["runs"].as_array().cloned().unwrap_or_default() {
                    let (limit, total, size) = (r["limit"].as_u64().unwrap_or(0), r["total"].as_u64().unwrap_or(0), r["file_size"].as_i64().unwrap_or(-1));
                    let which = r["which"].as_str().unwrap_or("?").to_string();
                    match r["outcome"].as_str().unwrap_or("?") {
                        "panicked" => {
                            rep.fail("python-build-panics", format!("build_{}_dic with the output limited to {} of {} bytes: {}", which, limit, total, r["message"]));
                            return rep;
                        }
                        "returned" if limit < total => {
                            rep.fail("sink-failure-reported-as-success", format!("build_{}_dic returned normally although the output file could only take {} of its {} bytes (file on disk: {} bytes)", which, limit, total, size));
                            return rep;
                        }
                        "returned" => {
                            if size as u64 != total {
                                rep.fail("python-build-differs", format!("build_{}_dic with room for {} bytes left a file of {} bytes, a complete one has {}", which, limit, size, total));
                                return rep;
                            }
                            rep.class("python-build: limit not reached, complete file");
                        }
                        _ if limit >= total => {
                            rep.fail("python-build-raises", format!("build_{}_dic raised {} although the output file had room for all {} bytes", which, r["message"], total));
                            return rep;
                        }
                        _ => {
                            rep.nontrivial = true;
                            rep.class(if total - limit <= 8192 { "python-build: output refused within the last 8 KiB, error raised" } else { "python-build: output refused earlier, error raised" });
                        }
                    }
                }
                let _ = std::fs::remove_dir_all(&dir);
            }
            Case::Sink { dic, short_write } => {
                let matrix = dic.matrix.render();
                let csv = render_csv(&dic.system);
                let full = match compile_system(&matrix, &csv) {
                    Ok(Ok(b)) => b,
                    _ => {
                        rep.class("rejected");
                        return rep;
                    }
                };
                rep.nontrivial = true;
                rep.class("sink-sweep");
                for k in 0..full.len() {
                    let mut b = DictBuilder::new_system();
                    b.set_compile_time(fixed_time());
                    if b.read_conn(matrix.as_bytes()).is_err() || b.read_lexicon(csv.as_bytes()).is_err() || b.resolve().is_err() {
                        rep.fail("harness-sink", "valid sources refused on re-read".to_string());
                        return rep;
                    }
                    let mut sink = FailingSink { fail_at: k, written: 0, short: *short_write, failed: false };
                    match guarded(|| b.compile(&mut sink)) {
                        Ok(Ok(())) => {
                            rep.fail("sink-failure-reported-as-success", format!("the sink failed at byte {} of {} but compile returned Ok (bytes accepted: {}, sink error raised: {})", k, full.len(), sink.written, sink.failed));
                            return rep;
                        }
                        Ok(Err(_)) => {}
                        Err(p) => {
                            rep.fail(&format!("panic:sink:{}", panic_site(&p)), format!("sink failing at byte {}: {}", k, p));
                            return rep;
                        }
                    }
                    if k % 7 == 3 || k + 1 == full.len() {
                        // the caller retries on the same builder with a working sink: the result must be the dictionary
                        // (compile must not have consumed anything the next compile needs)
                        let mut again: Vec<u8> = Vec::new();
                        match guarded(|| b.compile(&mut again)) {
                            Ok(Ok(())) => {
                                if again != full {
                                    rep.fail("retry-after-sink-failure-differs", format!("after a sink failure at byte {} a second compile on the same builder wrote {} bytes that differ from the {} bytes of a fresh compile", k, again.len(), full.len()));
                                    return rep;
                                }
                            }
                            Ok(Err(e)) => {
                                rep.fail("retry-after-sink-failure-error", format!("after a sink failure at byte {} a second compile on the same builder fails: {}", k, e));
                                return rep;
                            }
                            Err(p) => {
                                rep.fail(&format!("panic:retry:{}", panic_site(&p)), format!("second compile after a sink failure at byte {}: {}", k, p));
                                return rep;
                            }
                        }
                    }
                }
            }
        }
        rep
    }
    fn extra(&self, tier: Tier, seed: u64, ctx: &mut Ctx, stats: &mut Stats) -> Vec<(Value, Failure)> {
        // sizes on the limits of the binary format that no random draw reaches: the number of
        // distinct parts of speech (16-bit count, limit 32,767), homographs of one key (127 ids),
        // matrices with more than 32,767 / 65,535 cells whose last cells carry costs
        let mut fam: Vec<(String, Case)> = Vec::new();
        let pos_counts: Vec<usize> = match tier {
            Tier::Quick => vec![255, 256, 257, 32_767, 32_768, 32_769, 65_535, 65_536, 65_537],
            Tier::Thorough => vec![127, 128, 129, 255, 256, 257, 1023, 1024, 16_383, 16_384, 32_766, 32_767, 32_768, 32_769, 32_770, 65_534, 65_535, 65_536, 65_537, 70_000],
        };
        for n in pos_counts {
            let mut csv = String::with_capacity(n * 60);
            for i in 0..n {
                csv.push_str(&format!("k{i},0,0,100,k{i},名詞,P{i},*,*,*,*,k{i},k{i},*,A,*,*,*,*\n"));
            }
            let probes = vec!["k0".to_string(), format!("k{}", n - 1), format!("k{}k{}", n / 2, n - 2)];
            fam.push((format!("{} distinct parts of speech", n), Case::Build { matrix: "1 1\n0 0 5\n".into(), system_csv: csv, user_csv: None, probes, mutated: true }));
        }
        for n in [63usize, 64, 65, 126, 127, 128, 129, 255, 256, 257] {
            let mut csv = String::new();
            for i in 0..n {
                csv.push_str(&format!("あ,0,0,{},あ,名詞,普通名詞,一般,*,*,*,R{i},あ,*,A,*,*,*,*\n", 100 + i));
            }
            csv.push_str("い,0,0,100,い,名詞,普通名詞,一般,*,*,*,い,い,*,A,*,*,*,*\n");
            fam.push((format!("{} homographs of one key", n), Case::Build { matrix: "1 1\n".into(), system_csv: csv, user_csv: None, probes: vec!["あ".into(), "いあい".into()], mutated: true }));
        }
        for (nl, nr) in [(181u32, 181u32), (182, 182), (256, 128), (128, 257), (256, 256), (257, 255), (300, 300)] {
            let mut m = format!("{} {}\n", nl, nr);
            for (l, r) in [(0, 0), (nl - 1, nr - 1), (nl - 1, 0), (0, nr - 1), (nl / 2, nr / 2), (nl - 2, nr - 1)] {
                m.push_str(&format!("{} {} {}\n", l, r, (l * 7 + r) % 3000));
            }
            let lim = nl.min(nr);
            let csv = format!(
                "a,{x},{x},100,a,名詞,普通名詞,一般,*,*,*,a,a,*,A,*,*,*,*\nb,0,{y},100,b,名詞,普通名詞,一般,*,*,*,b,b,*,A,*,*,*,*\nc,{y},0,100,c,名詞,普通名詞,一般,*,*,*,c,c,*,A,*,*,*,*\n",
                x = lim - 1,
                y = lim / 2
            );
            fam.push((format!("{} x {} matrix", nl, nr), Case::Build { matrix: m, system_csv: csv, user_csv: None, probes: vec!["abc".into(), "aacb".into()], mutated: true }));
        }
        let mut fails = run_family(self, ctx, stats, "size-family", fam);
        // the Python entry points of the compiler: generated (and mutated) texts x output limits
        let mut pp = DicParams::small();
        pp.max_base = 8;
        pp.max_users = 1;
        pp.escapes = true;
        pp.big_matrix = true;
        let lim = prop_oneof![3 => 0i32..65536, 1 => Just(0i32), 1 => Just(65536i32), 2 => -300i32..0, 1 => Just(-1i32), 1 => -9000i32..-8000];
        let st = (dic_model(pp), prop_oneof![2 => Just(vec![]), 1 => vec(mutation(), 1..=2)], any::<bool>(), vec(lim, 2..6))
            .prop_map(|(dic, muts, target_user, limits)| {
                let (matrix, system_csv, user_csv) = apply_mutations(&dic, &muts, target_user);
                Case::PyBuild { matrix, system_csv, user_csv, limits }
            })
            .boxed();
        let n = tier.pick(160, 3200);
        let fam: Vec<(String, Case)> = sample_strategy(&st, seed ^ 0xC06, n).into_iter().enumerate().map(|(i, c)| (format!("case {}", i), c)).collect();
        // one report per clause (a defect here fails most cases at once)
        let mut seen = std::collections::HashSet::new();
        fails.extend(run_family(self, ctx, stats, "python-build", fam).into_iter().filter(|(_, f)| seen.insert(f.clause.clone())));
        fails
    }
    fn sample(&self, case: &Case) -> Value {
        match case {
            Case::Build { matrix, system_csv, user_csv, mutated, .. } => json!({
                "matrix": crate::driver::truncate(matrix, 300),
                "system_csv": crate::driver::truncate(system_csv, 1200),
                "user_csv": user_csv.as_ref().map(|u| crate::driver::truncate(u, 600)),
                "mutated": mutated,
            }),
            Case::Sink { dic, short_write } => json!({"sink_sweep_over": render_csv(&dic.system), "short_write": short_write}),
            Case::PyBuild { matrix, system_csv, user_csv, limits } => json!({
                "python_build": true,
                "matrix": crate::driver::truncate(matrix, 300),
                "system_csv": crate::driver::truncate(system_csv, 1200),
                "user_csv": user_csv.as_ref().map(|u| crate::driver::truncate(u, 600)),
                "output_limits": limits,
            }),
        }
    }
}

/// reproducers of recorded findings (written by `vcheck fixtures`)
pub fn fixtures() -> Vec<(&'static str, Case, &'static str)> {
    let row = |k: &str, l: &str, r: &str| format!("{},{},{},100,{},名詞,普通名詞,一般,*,*,*,{},{},*,A,*,*,*,*\n", k, l, r, k, k, k);
    vec![
        (
            "f5a-empty-matrix-text.json",
            Case::Build { matrix: "".into(), system_csv: row("a", "0", "0"), user_csv: None, probes: vec![], mutated: true },
            "F5a: an empty connection-matrix text hits todo!() in ConnBuffer::read",
        ),
        (
            "f5b-matrix-coordinate-beyond-header.json",
            Case::Build { matrix: "2 2\n2 0 7\n".into(), system_csv: row("a", "0", "0"), user_csv: None, probes: vec![], mutated: true },
            "F5b: a matrix line whose coordinate equals the header size silently writes another cell (2 2 / '2 0 7' lands in (0,1)); larger or negative coordinates panic",
        ),
        (
            "f5b-matrix-coordinate-negative.json",
            Case::Build { matrix: "2 2\n-1 0 7\n".into(), system_csv: row("a", "0", "0"), user_csv: None, probes: vec![], mutated: true },
            "F5b: a negative matrix coordinate panics (index out of bounds / overflow)",
        ),
        (
            "f5c-negative-right-id.json",
            Case::Build { matrix: "2 2\n".into(), system_csv: row("a", "0", "-1"), user_csv: None, probes: vec!["aa".into()], mutated: true },
            "F5c: an indexed row with right id -1 compiles; analysis then indexes outside the matrix",
        ),
        (
            "f15-split-units-do-not-concatenate.json",
            Case::Build {
                matrix: "1 1\n".into(),
                system_csv: format!("{}{}{}", row("あ", "0", "0"), row("a", "0", "0"), "あa,0,0,100,あa,名詞,普通名詞,一般,*,*,*,あa,あa,*,C,1/0,*,*,*\n"),
                user_csv: None,
                probes: vec!["あa".into()],
                mutated: true,
            },
            "F15: a word whose declared A units (a + あ) do not concatenate to its key (あa) compiles; analysing it in mode A cuts inside a character (panic)",
        ),
        (
            "f27-key-of-32760-bytes.json",
            Case::Build { matrix: "1 1\n".into(), system_csv: row(&"a".repeat(32_760), "0", "0"), user_csv: None, probes: vec![], mutated: true },
            "F27: a row whose key has 32,760 bytes (the format allows 32,767 UTF-16 units) makes the trie builder (yada, one recursion level per key byte) overflow an 8 MiB stack: the process aborts instead of compile returning an error",
        ),
        (
            "f16-nul-in-key.json",
            Case::Build { matrix: "1 1\n".into(), system_csv: row("\\u0000a", "0", "0"), user_csv: None, probes: vec![], mutated: true },
            "F16 (fixed): a key containing U+0000 makes the trie builder panic",
        ),
        (
            "f17-user-dic-form.json",
            Case::Build { matrix: "1 1\n".into(), system_csv: format!("{}{}", row("a", "0", "0"), row("b", "0", "0")), user_csv: Some("c,0,0,100,c,名詞,普通名詞,一般,*,*,*,c,c,1,A,*,*,*,*\n".into()), probes: vec!["c".into()], mutated: true },
            "F17 (fixed): dic_form 1 in a one-word user dictionary is validated against the system dictionary, reading the word indexes outside the dictionary",
        ),
        (
            "f17-user-dic-form-u-prefix.json",
            Case::Build { matrix: "1 1\n".into(), system_csv: row("a", "0", "0"), user_csv: Some("c,0,0,100,c,名詞,普通名詞,一般,*,*,*,c,c,U0,A,*,*,*,*\n".into()), probes: vec!["c".into()], mutated: true },
            "F17 (fixed): dic_form U0 is stored with the dictionary bits and read as a huge index",
        ),
        (
            "f9-non-square-matrix.json",
            Case::Build { matrix: "3 2\n".into(), system_csv: row("a", "2", "1"), user_csv: None, probes: vec!["aa".into()], mutated: true },
            "F9 (fixed): with a 3 x 2 matrix left id 2 / right id 1 was accepted although left ids index the second dimension",
        ),
        (
            "f14-no-indexed-row.json",
            Case::Build { matrix: "1 1\n".into(), system_csv: row("a", "-1", "0"), user_csv: None, probes: vec![], mutated: true },
            "F14: a lexicon without any indexed row makes the trie builder (yada) panic: assertion failed: labels.len() > 0",
        ),
    ]
}
