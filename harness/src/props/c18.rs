//! C18 — one loaded dictionary can be shared by concurrent tokenizers.
//!
//! Every round runs in a fresh child process (`vcheck stress`), so that the lazily initialised
//! regexes / tables of the library are first used inside the race. The parent computes the
//! single-threaded results for the same input streams in its own process and compares.

use crate::common::*;
use crate::engine::*;
use crate::props::c19::{load_world_dict, worlds_base, write_worlds, N_WORLDS};
use proptest::prelude::*;
use serde::{Deserialize, Serialize};
use serde_json::{json, Value};
use std::path::{Path, PathBuf};
use std::sync::atomic::{AtomicUsize, Ordering};
use std::sync::{Arc, Barrier, OnceLock};
use sudachi::analysis::stateful_tokenizer::StatefulTokenizer;
use sudachi::analysis::stateless_tokenizer::DictionaryAccess;
use sudachi::dic::dictionary::JapaneseDictionary;
use sudachi::dic::word_id::WordId;
use sudachi::prelude::MorphemeList;
use sudachi::sentence_splitter::{SentenceSplitter, SplitSentences};

// compile-time: the dictionary may be shared between threads
#[allow(dead_code)]
fn assert_send_sync<T: Send + Sync>() {}
#[allow(dead_code)]
fn dictionary_is_send_sync() {
    assert_send_sync::<JapaneseDictionary>();
    assert_send_sync::<Arc<JapaneseDictionary>>();
}

#[derive(Clone, Debug, Serialize, Deserialize)]
pub struct Case {
    pub world: u8,
    pub threads: u8,
    pub seed: u64,
    pub texts: u16,
    /// start the threads in reverse order / with yields drawn from the seed
    pub stagger: u8,
}

pub struct C18;

const POOL: &[&str] = &["a", "A", "1", "９", "。", "、", "！", "?", ".", ",", "「", "」", " ", "京", "都", "東", "一", "十", "百", "万", "あ", "い", "ア", "イ", "ー", "ッ", "ｱ", "ﾞ", "㍿", "𠮷", "😀", "é", "(か)", "ーー", "3.14", "1,000", "\u{301}", "京(かな)", "東京（とう）都", "漢（かん）字（じ）", "XAG-3F", "abc12", "Tokyo"];

pub fn stream(keys: &[String], seed: u64, thread: usize, n: usize) -> Vec<String> {
    let mut x = splitmix(seed ^ ((thread as u64 + 1) << 40));
    let mut v = Vec::with_capacity(n);
    for k in 0..n {
        x = splitmix(x);
        if k == 0 {
            // the first text of every thread touches every bundled plugin (regex word, bracketed reading,
            // numeral with separator, katakana run, mark run, expander): first uses race with each other
            let tail = if keys.is_empty() { String::new() } else { keys[(x >> 8) as usize % keys.len()].clone() };
            v.push(format!("XAG-3F{}京(かな)1,000アイウー東京（とう）都ーー㍿{}", ["a", "Tokyo", "abc12", ""][thread % 4], tail));
            continue;
        }
        let len = 1 + (x % 14) as usize;
        let mut s = String::new();
        for _ in 0..len {
            x = splitmix(x);
            if !keys.is_empty() && x % 3 != 0 {
                s.push_str(&keys[(x >> 8) as usize % keys.len()]);
            } else {
                s.push_str(POOL[(x >> 8) as usize % POOL.len()]);
            }
        }
        v.push(s);
    }
    v
}

/// everything a caller can observe for one text, as a digest
pub fn observe_text<'a>(dict: &'a JapaneseDictionary, tok: &mut StatefulTokenizer<&'a JapaneseDictionary>, ml: &mut MorphemeList<&'a JapaneseDictionary>, spare: &mut MorphemeList<&'a JapaneseDictionary>, text: &str) -> (u64, String) {
    use std::fmt::Write;
    let mut s = String::new();
    for mode in MODES {
        tok.set_mode(mode);
        tok.reset().push_str(text);
        match tok.do_tokenize() {
            Ok(()) => {
                if ml.collect_results(tok).is_err() {
                    s.push_str("collect-error;");
                    continue;
                }
                for m in ml.iter() {
                    let _ = write!(s, "{}..{}:{}:{:?}:{}:{}:{}:{};", m.begin(), m.end(), m.word_id().as_raw(), m.part_of_speech(), m.normalized_form(), m.dictionary_form(), m.reading_form(), m.total_cost());
                    spare.clear();
                    if let Ok(true) = m.split_into(sudachi::analysis::Mode::A, spare) {
                        for p in spare.iter() {
                            let _ = write!(s, "[{}..{}:{}]", p.begin(), p.end(), p.word_id().as_raw());
                        }
                    }
                }
                s.push('|');
            }
            Err(e) => {
                let _ = write!(s, "ERR {};|", err_kind(root_err(&e)));
            }
        }
    }
    let sp = SentenceSplitter::new().with_checker(dict.lexicon());
    for (r, _) in sp.split(text) {
        let _ = write!(s, "S{}..{};", r.start, r.end);
    }
    (digest(&s), s)
}

/// observable snapshot of the dictionary (matrix, word parameters, POS list, every word's info)
/// number of words of the system dictionary and of every user dictionary of a world
pub fn world_sizes(dir: &Path) -> Vec<u32> {
    let cfg: Value = std::fs::read_to_string(dir.join("sudachi.json")).ok().and_then(|t| serde_json::from_str(&t).ok()).unwrap_or(Value::Null);
    let mut v = Vec::new();
    if let Some(p) = cfg["systemDict"].as_str() {
        if let Ok(b) = std::fs::read(p) {
            v.push(sudachi::dic::DictionaryLoader::read_system_dictionary(&b).map(|l| l.lexicon.size()).unwrap_or(0));
        }
    }
    for u in cfg["userDict"].as_array().cloned().unwrap_or_default() {
        if let Some(p) = u.as_str() {
            if let Ok(b) = std::fs::read(p) {
                v.push(sudachi::dic::DictionaryLoader::read_user_dictionary(&b).map(|l| l.lexicon.size()).unwrap_or(0));
            }
        }
    }
    v
}

pub fn snapshot(dict: &JapaneseDictionary, sizes: &[u32]) -> u64 {
    use std::fmt::Write;
    let mut s = String::new();
    let g = dict.grammar();
    let m = g.conn_matrix();
    for l in 0..m.num_left() {
        for r in 0..m.num_right() {
            let _ = write!(s, "{},", m.cost(l as u16, r as u16));
        }
    }
    let _ = write!(s, "{:?}", g.pos_list);
    let lex = dict.lexicon();
    for (d, size) in sizes.iter().enumerate() {
        for n in 0..*size {
            let id = WordId::new(d as u8, n);
            match lex.get_word_info(id) {
                Ok(wi) => {
                    let _ = write!(s, "{}|{}|{}|{}|{:?}|{:?};", wi.surface(), wi.pos_id(), wi.normalized_form(), wi.reading_form(), wi.a_unit_split(), lex.get_word_param(id));
                }
                Err(e) => {
                    let _ = write!(s, "ERR {};", e);
                }
            }
        }
    }
    digest(&s)
}

/// child process entry: `vcheck stress <world dir> <threads> <seed> <texts> <stagger>`
pub fn stress_main(args: &[String]) -> i32 {
    install_panic_hook();
    let dir = PathBuf::from(&args[0]);
    let threads: usize = args[1].parse().unwrap_or(2);
    let seed: u64 = args[2].parse().unwrap_or(0);
    let n: usize = args[3].parse().unwrap_or(10);
    let stagger: u8 = args[4].parse().unwrap_or(0);
    let keys: Vec<String> = std::fs::read_to_string(dir.join("keys.json")).ok().and_then(|t| serde_json::from_str(&t).ok()).unwrap_or_default();
    let dict = match load_world_dict(&dir) {
        Ok(d) => Arc::new(d),
        Err(e) => {
            println!("{}", json!({"error": e}));
            return 2;
        }
    };
    // NOTE: no analysis before the threads start (first use must happen inside the race); the
    // snapshot only reads dictionary data
    let sizes = world_sizes(&dir);
    let before = snapshot(&dict, &sizes);
    let barrier = Arc::new(Barrier::new(threads));
    let inside = Arc::new(AtomicUsize::new(0));
    let max_inside = Arc::new(AtomicUsize::new(0));
    let mut handles = Vec::new();
    let order: Vec<usize> = if stagger & 1 == 1 { (0..threads).rev().collect() } else { (0..threads).collect() };
    for t in order {
        let dict = dict.clone();
        let keys = keys.clone();
        let barrier = barrier.clone();
        let inside = inside.clone();
        let max_inside = max_inside.clone();
        handles.push((
            t,
            std::thread::spawn(move || {
                let texts = stream(&keys, seed, t, n);
                let d: &JapaneseDictionary = &dict;
                let mut tok = StatefulTokenizer::new(d, sudachi::analysis::Mode::C);
                let mut ml = MorphemeList::empty(d);
                let mut spare = MorphemeList::empty(d);
                barrier.wait();
                let mut out = Vec::with_capacity(n);
                for (i, text) in texts.iter().enumerate() {
                    if stagger & 2 == 2 && (splitmix(seed ^ (t * 131 + i) as u64) % 4 == 0) {
                        std::thread::yield_now();
                    }
                    let now = inside.fetch_add(1, Ordering::SeqCst) + 1;
                    max_inside.fetch_max(now, Ordering::SeqCst);
                    let r = guarded(|| observe_text(d, &mut tok, &mut ml, &mut spare, text).0);
                    inside.fetch_sub(1, Ordering::SeqCst);
                    match r {
                        Ok(x) => out.push(x),
                        Err(p) => {
                            out.push(0);
                            return (out, Some(format!("thread {} text {} {:?}: {}", t, i, text, p)));
                        }
                    }
                }
                (out, None)
            }),
        ));
    }
    let mut results: Vec<Value> = vec![Value::Null; threads];
    let mut panic_msg: Option<String> = None;
    for (t, h) in handles {
        match h.join() {
            Ok((digests, p)) => {
                results[t] = json!(digests);
                if p.is_some() && panic_msg.is_none() {
                    panic_msg = p;
                }
            }
            Err(_) => {
                panic_msg = Some(format!("thread {} died", t));
            }
        }
    }
    let after = snapshot(&dict, &sizes);
    println!("{}", json!({"threads": results, "snapshot_before": before, "snapshot_after": after, "max_concurrent": max_inside.load(Ordering::SeqCst), "panic": panic_msg}));
    0
}

struct ParentWorld {
    dir: PathBuf,
    keys: Vec<String>,
    dict: JapaneseDictionary,
}

static PWORLDS: OnceLock<Result<Vec<ParentWorld>, String>> = OnceLock::new();

fn base_dir() -> PathBuf {
    worlds_base().parent().unwrap().join("c18")
}

fn parent_worlds() -> &'static Result<Vec<ParentWorld>, String> {
    PWORLDS.get_or_init(|| {
        let seed = std::env::var("VERIF_SEED").ok().and_then(|s| s.trim().parse::<i64>().ok()).unwrap_or(0) as u64;
        let ws = write_worlds(&base_dir(), seed)?;
        let mut v = Vec::new();
        for (dir, keys) in ws {
            let dict = load_world_dict(&dir)?;
            v.push(ParentWorld { dir, keys, dict });
        }
        Ok(v)
    })
}

pub fn expected_for(dir: &Path, dict: &JapaneseDictionary, keys: &[String], case: &Case) -> Vec<Vec<(u64, String)>> {
    let _ = dir;
    let mut out = Vec::new();
    for t in 0..case.threads as usize {
        let texts = stream(keys, case.seed, t, case.texts as usize);
        let mut tok = StatefulTokenizer::new(dict, sudachi::analysis::Mode::C);
        let mut ml = MorphemeList::empty(dict);
        let mut spare = MorphemeList::empty(dict);
        out.push(texts.iter().map(|x| observe_text(dict, &mut tok, &mut ml, &mut spare, x)).collect());
    }
    out
}

impl Property for C18 {
    type Case = Case;
    fn id(&self) -> &'static str {
        "C18"
    }
    fn rule(&self) -> &'static str {
        "case = one round: a world (repository fixture or generated dictionary + configuration with every plugin type, loaded from files), 2-16 threads released by a barrier \
         right after Arc::new(dictionary) in a FRESH child process (so that first-use initialisation of lazily built regexes and tables happens inside the race), per-thread \
         streams of 20-120 generated texts analysed in modes A, B, C with on-demand splits and sentence splitting, optional reversed start order and yields drawn from the \
         seed. Oracle: every thread's observations (ranges, word ids, POS, forms, costs, split pieces, sentence ranges, error kinds) equal the single-threaded results the \
         parent computes for the same stream; a snapshot of the dictionary (all matrix cells, POS list, every word's parameters and info) is identical before and after; no \
         thread panics; the child exits normally. Python half (py/c18_check.py): 2-8 threading.Thread workers with their own Tokenizer from one Dictionary versus a \
         sequential run. Non-trivial: a round in which >= 2 threads were inside the analysis at the same time (measured)."
    }
    fn assumptions(&self) -> Vec<&'static str> {
        vec![
            "schedules are explored, not enumerated: a race that needs a rare preemption can be missed; the thorough tier repeats the rounds under ThreadSanitizer when that build is available",
        ]
    }
    fn strategy(&self, tier: Tier) -> BoxedStrategy<Case> {
        (0u8..N_WORLDS as u8, 2u8..=16, any::<u64>(), tier.pick(20u16..60, 40u16..120), 0u8..4).prop_map(|(world, threads, seed, texts, stagger)| Case { world, threads, seed, texts, stagger }).boxed()
    }
    fn cases_per_shard(&self, tier: Tier) -> u32 {
        tier.pick(6, 40)
    }
    fn check(&self, case: &Case, _ctx: &mut Ctx) -> Report {
        let mut rep = Report::default();
        let ws = match parent_worlds() {
            Ok(w) => w,
            Err(e) => {
                rep.fail("harness-worlds", e.clone());
                return rep;
            }
        };
        let w = &ws[case.world as usize % ws.len()];
        let exe = std::env::current_exe().unwrap();
        let out = std::process::Command::new(exe)
            .arg("stress")
            .arg(&w.dir)
            .arg(case.threads.to_string())
            .arg(case.seed.to_string())
            .arg(case.texts.to_string())
            .arg(case.stagger.to_string())
            .output();
        let out = match out {
            Ok(o) => o,
            Err(e) => {
                rep.fail("harness-spawn", format!("{}", e));
                return rep;
            }
        };
        if !out.status.success() {
            rep.fail("child-died", format!("the stress process ended with {:?}; stderr: {}", out.status, crate::driver::truncate(&String::from_utf8_lossy(&out.stderr), 500)));
            return rep;
        }
        let v: Value = match serde_json::from_slice(&out.stdout) {
            Ok(v) => v,
            Err(e) => {
                rep.fail("child-output", format!("{} / {}", e, crate::driver::truncate(&String::from_utf8_lossy(&out.stdout), 300)));
                return rep;
            }
        };
        if let Some(p) = v["panic"].as_str() {
            rep.fail("thread-panic", p.to_string());
            return rep;
        }
        if v["snapshot_before"] != v["snapshot_after"] {
            rep.fail("dictionary-modified", "the observable snapshot of the shared dictionary changed during the round".to_string());
            return rep;
        }
        if v["snapshot_before"].as_u64() != Some(snapshot(&w.dict, &world_sizes(&w.dir))) {
            rep.fail("dictionary-differs", "the dictionary loaded by the child differs from the parent's".to_string());
            return rep;
        }
        let expected = expected_for(&w.dir, &w.dict, &w.keys, case);
        for t in 0..case.threads as usize {
            let got: Vec<u64> = v["threads"][t].as_array().map(|a| a.iter().filter_map(|x| x.as_u64()).collect()).unwrap_or_default();
            if got.len() != expected[t].len() {
                rep.fail("thread-incomplete", format!("thread {} reported {} results for {} texts", t, got.len(), expected[t].len()));
                return rep;
            }
            for (i, (g, (e, detail))) in got.iter().zip(expected[t].iter()).enumerate() {
                if g != e {
                    let text = &stream(&w.keys, case.seed, t, case.texts as usize)[i];
                    rep.fail("concurrent-result-differs", format!("thread {} text {} {:?}: the result under concurrency differs from the single-threaded one ({})", t, i, text, crate::driver::truncate(detail, 300)));
                    return rep;
                }
            }
        }
        // thorough tier: the same round under ThreadSanitizer (the build is made by ./check)
        if let Ok(tsan) = std::env::var("VERIF_TSAN_BIN") {
            if Path::new(&tsan).exists() {
                let o = std::process::Command::new(&tsan)
                    .env("TSAN_OPTIONS", "halt_on_error=0 exitcode=66")
                    .arg("stress")
                    .arg(&w.dir)
                    .arg(case.threads.to_string())
                    .arg(case.seed.to_string())
                    .arg(case.texts.min(40).to_string())
                    .arg(case.stagger.to_string())
                    .output();
                if let Ok(o) = o {
                    let err = String::from_utf8_lossy(&o.stderr).to_string();
                    if err.contains("ThreadSanitizer") {
                        let first: String = err.lines().skip_while(|l| !l.contains("ThreadSanitizer")).take(14).collect::<Vec<_>>().join(" / ");
                        rep.fail("tsan-report", crate::driver::truncate(&first, 900));
                        return rep;
                    }
                    rep.class("round repeated under ThreadSanitizer");
                }
            }
        }
        let mc = v["max_concurrent"].as_u64().unwrap_or(0);
        if mc >= 2 {
            rep.nontrivial = true;
        }
        if mc >= 8 {
            rep.class(">= 8 threads inside the analysis at once");
        }
        rep.class("round");
        rep
    }
    fn extra(&self, tier: Tier, seed: u64, ctx: &mut Ctx, stats: &mut Stats) -> Vec<(Value, Failure)> {
        let first = self.extra_first_use(tier, seed, ctx, stats);
        if !first.is_empty() {
            return first;
        }
        // Python threads sharing one Dictionary
        let root = verif_root();
        let result = root.join("work").join("c18-python-result.json");
        let _ = std::fs::remove_file(&result);
        if parent_worlds().is_err() {
            return vec![];
        }
        // the threads of one interpreter can block each other for good (a lock held across the release of the GIL):
        // the driver gets 5 (thorough 30) minutes, its examples need seconds
        let mut pycmd = std::process::Command::new("python3-vt");
        pycmd
            .arg(root.join("py").join("c18_check.py"))
            .arg("--lib").arg(root.join("work").join("pylib"))
            .arg("--worlds").arg(base_dir())
            .arg("--seed").arg(seed.to_string())
            .arg("--examples").arg(tier.pick(25, 400).to_string())
            .arg("--out").arg(&result);
        let status = match status_with_timeout(&mut pycmd, tier.pick(300, 1800)) {
            Ok(Some(st)) => Ok(st),
            Ok(None) => {
                stats.record("python-threads-deadlock", false, Some("python:threaded example"));
                return vec![(json!({"python": "threads"}), Failure { clause: "python:threads-never-finish".into(), detail: "the interpreter running threads that share one Dictionary did not finish within the time limit (its examples take seconds): the threads block each other".into() })];
            }
            Err(e) => Err(e),
        };
        let res: Option<Value> = std::fs::read_to_string(&result).ok().and_then(|t| serde_json::from_str(&t).ok());
        let mut fails = Vec::new();
        match (status, res) {
            (Ok(st), Some(v)) => {
                let n = v["examples"].as_u64().unwrap_or(0);
                for i in 0..n {
                    stats.record(&format!("python-threads-{}-{}", seed, i), true, Some("python:threaded example"));
                }
                stats.extra.insert("python_threads".into(), v.clone());
                if let Some(f) = v.get("failure").filter(|f| !f.is_null()) {
                    fails.push((f["case"].clone(), Failure { clause: format!("python:{}", f["clause"].as_str().unwrap_or("?")), detail: f["detail"].as_str().unwrap_or("").to_string() }));
                } else if !st.success() {
                    fails.push((json!({"python": "driver"}), Failure { clause: "python:driver-exit".into(), detail: format!("{:?}", st.code()) }));
                }
            }
            (Ok(st), None) => fails.push((Value::Null, Failure { clause: "python:interpreter-crash".into(), detail: format!("the interpreter exited with {:?} without a result", st) })),
            (Err(e), _) => fails.push((Value::Null, Failure { clause: "harness-python".into(), detail: format!("{}", e) })),
        }
        fails
    }
}

impl C18 {
    fn extra_first_use(&self, tier: Tier, seed: u64, ctx: &mut Ctx, stats: &mut Stats) -> Vec<(Value, Failure)> {
        // first-use races: many short rounds on the world that carries every bundled plugin, one process at a time
        // (so that its threads really run together), each thread starting with a text that touches every plugin
        let mut fails = Vec::new();
        let rounds = tier.pick(64u64, 400u64);
        for r in 0..rounds {
            let case = Case { world: 1, threads: 4 + (r % 13) as u8, seed: splitmix(seed ^ (0xF1 + r)), texts: 2, stagger: (r % 4) as u8 };
            let rep = self.check(&case, ctx);
            stats.record(&format!("first-use:{}", r), rep.failure.is_none(), Some("first-use round"));
            if let Some(f) = rep.failure {
                fails.push((serde_json::to_value(&case).unwrap(), f));
                break;
            }
        }
        stats.extra.insert("first_use_rounds".into(), json!(rounds));
        fails
    }
}
