//! C13 — unknown-word candidates follow the character-class definition.

use crate::common::*;
use crate::engine::*;
use crate::gen::ix;
use crate::model::cfg::*;
use crate::model::chardef::*;
use crate::model::dic::*;
use proptest::collection::vec;
use proptest::prelude::*;
use proptest::sample::select;
use serde::{Deserialize, Serialize};
use serde_json::{json, Value};
use std::collections::{BTreeMap, BTreeSet};
use sudachi::analysis::stateful_tokenizer::StatefulTokenizer;
use sudachi::analysis::stateless_tokenizer::DictionaryAccess;
use sudachi::analysis::Mode;

const ALPHABET: &[char] = &['a', 'b', 'Z', '1', '2', 'あ', 'ア', 'ー', '京', '\u{301}', '\u{200d}', '😀', '。', 'д'];
const CLASSES: &[&str] = &["DEFAULT", "ALPHA", "NUMERIC", "HIRAGANA", "KATAKANA", "KANJI", "CYRILLIC", "USER1", "USER2", "USER3"];

#[derive(Clone, Debug, Serialize, Deserialize)]
pub struct CatLine {
    pub name: String,
    pub invoke: bool,
    pub group: bool,
    pub length: u32,
}

#[derive(Clone, Debug, Serialize, Deserialize)]
pub struct UnkLine {
    pub name: String,
    pub left: u16,
    pub right: u16,
    pub cost: i16,
    pub pos: String,
}

#[derive(Clone, Debug, Serialize, Deserialize)]
pub enum Prov {
    Mecab,
    Regex { regex: String, strict: Option<bool>, max_length: Option<usize>, left: u16, right: u16, cost: i16 },
    Simple { left: u16, right: u16, cost: i16 },
}

#[derive(Clone, Debug, Serialize, Deserialize)]
pub struct Case {
    /// classes of each alphabet character (range lines are rendered per character, plus one shared range)
    pub char_classes: Vec<Vec<String>>,
    pub cat_lines: Vec<CatLine>,
    pub unk_lines: Vec<UnkLine>,
    pub providers: Vec<Prov>,
    /// dictionary words: indices into the alphabet
    pub words: Vec<(Vec<u8>, u16, u16, i16)>,
    pub n: u16,
    pub texts: Vec<Vec<u8>>,
}

pub struct C13;

fn render_chardef(case: &Case) -> String {
    let mut s = String::new();
    for c in &case.cat_lines {
        s.push_str(&format!("{} {} {} {}\n", c.name, c.invoke as u8, c.group as u8, c.length));
    }
    for (i, cl) in case.char_classes.iter().enumerate() {
        if cl.is_empty() {
            continue;
        }
        s.push_str(&format!("0x{:04X} {}\n", ALPHABET[i] as u32, cl.join(" ")));
    }
    s
}

fn render_unk(case: &Case) -> String {
    let mut s = String::new();
    for u in &case.unk_lines {
        s.push_str(&format!("{},{},{},{},{}\n", u.name, u.left, u.right, u.cost, u.pos));
    }
    s
}

fn text_of(t: &[u8]) -> String {
    t.iter().map(|i| ALPHABET[*i as usize % ALPHABET.len()]).collect()
}

/// left-to-right greedy class runs: for every character the number of characters to the end of its run
pub fn class_runs(cats: &[u32]) -> Vec<usize> {
    let n = cats.len();
    let mut res = vec![1usize; n];
    let mut start = 0;
    while start < n {
        let mut common = cats[start];
        let mut end = start + 1;
        while end < n && common & cats[end] != 0 {
            common &= cats[end];
            end += 1;
        }
        for i in start..end {
            res[i] = end - i;
        }
        start = end;
    }
    res
}

type Cand = (usize, usize, u16, u16, i16, String);

#[derive(Default, Clone, Copy)]
struct Created(u64);
impl Created {
    fn add(&mut self, len: usize) {
        let shift = (len as u64).saturating_sub(1).min(63);
        self.0 |= 1 << shift;
    }
    fn is_empty(&self) -> bool {
        self.0 == 0
    }
    /// 0 no, 1 yes, 2 maybe
    fn has(&self, len: usize) -> u8 {
        let shift = (len as u64).saturating_sub(1).min(63);
        if self.0 & (1 << shift) == 0 {
            0
        } else if len >= 64 {
            2
        } else {
            1
        }
    }
}

struct Reference<'a> {
    case: &'a Case,
    cats: Vec<u32>,
    runs: Vec<usize>,
    chars: Vec<char>,
    can_bow: Vec<bool>,
    info: BTreeMap<u32, &'a CatLine>,
    unk: BTreeMap<u32, Vec<&'a UnkLine>>,
    regexes: Vec<Option<regex::Regex>>,
}

impl<'a> Reference<'a> {
    fn mecab(&self, off: usize, created: Created) -> Vec<Cand> {
        let mut v = Vec::new();
        let run = self.runs[off];
        let n = self.chars.len();
        for (_, bit) in CATS.iter().filter(|(nm, _)| *nm != "ALL") {
            if self.cats[off] & bit == 0 {
                continue;
            }
            let Some(ci) = self.info.get(bit) else { continue };
            if !ci.invoke && !created.is_empty() {
                continue;
            }
            let Some(lines) = self.unk.get(bit) else { continue };
            let mut llength = run;
            if ci.group {
                for u in lines {
                    v.push((off, off + run, u.left, u.right, u.cost, u.pos.clone()));
                }
                llength -= 1;
            }
            for i in 1..=ci.length as usize {
                let sub = (off + i).min(n) - off;
                if sub > llength {
                    break;
                }
                for u in lines {
                    v.push((off, off + sub, u.left, u.right, u.cost, u.pos.clone()));
                }
            }
        }
        v
    }
    fn simple(&self, off: usize, created: Created, l: u16, r: u16, c: i16) -> Vec<Cand> {
        if !created.is_empty() {
            return vec![];
        }
        let n = self.chars.len();
        let mut len = n - off;
        for i in off + 1..n {
            if self.can_bow[i] {
                len = i - off;
                break;
            }
        }
        vec![(off, off + len, l, r, c, POS_SYM.to_string())]
    }
    fn regex(&self, k: usize, off: usize, created: Created, existing_ends: &BTreeSet<usize>) -> Vec<Cand> {
        let Prov::Regex { strict, max_length, left, right, cost, .. } = &self.case.providers[k] else { return vec![] };
        let strict = strict.unwrap_or(true);
        if strict && off > 0 && self.runs[off] + 1 == self.runs[off - 1] {
            return vec![];
        }
        let Some(re) = &self.regexes[k] else { return vec![] };
        let n = self.chars.len();
        let end = n.min(off + max_length.unwrap_or(32));
        let slice: String = self.chars[off..end].iter().collect();
        match re.find(&slice) {
            Some(m) if m.start() == 0 => {
                let len = slice[..m.end()].chars().count();
                if len == 0 {
                    // an empty match proposes no word
                    return vec![];
                }
                match created.has(len) {
                    1 => return vec![],
                    2 => {
                        if existing_ends.contains(&(off + len)) {
                            return vec![];
                        }
                    }
                    _ => {}
                }
                vec![(off, off + len, *left, *right, *cost, POS_PLUGIN.to_string())]
            }
            _ => vec![],
        }
    }
}

impl Property for C13 {
    type Case = Case;
    fn id(&self) -> &'static str {
        "C13"
    }
    fn rule(&self) -> &'static str {
        "case = a generated char.def over a 14-character alphabet (0-3 classes per character out of 10 + ALL + NOOOVBOW / NOOOVBOW2), category lines with invoke / group / \
         length 0-4, 0-3 unk.def lines per class, a provider order out of {MeCab, Regex strict|relaxed with maxLength, Simple}, 0-6 dictionary words over the same alphabet and \
         1-4 texts of 1-12 (thorough 80: runs beyond 64) characters. Level 1: each provider called through the public trait on the built input must return exactly the reference \
         candidate set at every offset, with empty and non-empty 'already created' sets. Level 2: the lattice (verif hook) must hold exactly dictionary candidates + provider \
         candidates in order with the created-lengths rule, providers skipped at NOOOVBOW characters, the last provider re-invoked when a position would stay empty. Level 3: \
         OOV morphemes report is_oov, dictionary -1, the configured POS and the normalised slice as forms. Candidates are compared as sets. Non-trivial: a text with a \
         multi-class character adjacent to characters sharing only some of its classes."
    }
    fn assumptions(&self) -> Vec<&'static str> {
        vec![
            "class runs are computed on the full class bit set of each character (the NOOOVBOW flags are bits of that set), left to right from the start of the text",
            "word-start permissions (can_bow) are read from the built input buffer: they are an input of this oracle",
            "the regex provider is compared with the same `regex` crate the library uses (trusted base)",
        ]
    }
    fn strategy(&self, tier: Tier) -> BoxedStrategy<Case> {
        let classes = prop_oneof![
            6 => vec(select(CLASSES), 0..=3).prop_map(|v| v.into_iter().map(|s| s.to_string()).collect::<Vec<String>>()),
            1 => Just(vec!["ALL".to_string()]),
            1 => (select(CLASSES), select(vec!["NOOOVBOW", "NOOOVBOW2"])).prop_map(|(a, b)| vec![a.to_string(), b.to_string()]),
        ];
        let cat_line = (select(CLASSES), any::<bool>(), any::<bool>(), 0u32..=4).prop_map(|(n, invoke, group, length)| CatLine { name: n.to_string(), invoke, group, length });
        let maxt = tier.pick(12usize, 80usize);
        (1u16..=3).prop_flat_map(move |n| {
            let unk = (select(CLASSES), 0..n, 0..n, -200i16..5000, select(vec![POS_NOUN, POS_NUM, POS_USER2])).prop_map(|(name, left, right, cost, pos)| UnkLine { name: name.to_string(), left, right, cost, pos: pos.to_string() });
            let prov = prop_oneof![
                4 => Just(Prov::Mecab),
                2 => (select(vec!["[ab]+", "[a-zA-Z0-9]+", "[ア-ンー]+", ".", "a?", "(?:ab|a)+1*"]), prop::option::of(any::<bool>()), prop::option::of(1usize..70), 0..n, 0..n, -200i16..5000)
                    .prop_map(|(r, strict, max_length, left, right, cost)| Prov::Regex { regex: r.to_string(), strict, max_length, left, right, cost }),
                2 => (0..n, 0..n, -200i16..5000).prop_map(|(left, right, cost)| Prov::Simple { left, right, cost }),
            ];
            let word = (vec(0u8..ALPHABET.len() as u8, 1..=3), 0..n, 0..n, -200i16..5000);
            let text = prop_oneof![
                8 => vec(0u8..ALPHABET.len() as u8, 1..=12.min(maxt)),
                1 => vec(0u8..4, 1..=maxt),
            ];
            (
                vec(classes.clone(), ALPHABET.len()),
                vec(cat_line.clone(), 0..8),
                vec(unk, 0..10),
                vec(prov, 1..=3),
                vec(word, 0..6),
                Just(n),
                vec(text, 1..=4),
            )
        })
        .prop_flat_map(|t| (Just(t), prop::option::weighted(0.1, (60usize..70, 60usize..72, 0u8..2, any::<bool>(), 0usize..5, 0usize..4))))
        .prop_map(|((char_classes, cat_lines, unk_lines, mut providers, words, n, mut texts), long)| {
            if let Some((maxlen, reps, ch, mecab_first, pre, tail_run)) = long {
                // scenario for words of 64+ characters (the "maybe created" branch of the length bitmap)
                let re = Prov::Regex { regex: "[ab]+".to_string(), strict: Some(false), max_length: Some(maxlen), left: 0, right: 0, cost: 10 };
                providers = if mecab_first { vec![Prov::Mecab, re] } else { vec![re.clone(), Prov::Mecab, re] };
                // the long run starts after 0-4 other characters (so that earlier positions have
                // created nodes too) and may be followed by a run of another character
                let mut t: Vec<u8> = texts[0].iter().take(pre).cloned().collect();
                t.extend(vec![ch; reps]);
                t.extend(vec![1 - ch; tail_run * 2]);
                t.extend(texts[0].iter().skip(pre).take(3));
                texts[0] = t;
            }
            // one definition per class name (the loader refuses duplicates), unk lines only for defined classes
            let mut seen = BTreeSet::new();
            let cat_lines: Vec<CatLine> = cat_lines.into_iter().filter(|c| seen.insert(c.name.clone())).collect();
            let unk_lines: Vec<UnkLine> = unk_lines.into_iter().filter(|u| seen.contains(&u.name)).collect();
            Case { char_classes, cat_lines, unk_lines, providers, words, n, texts }
        })
        .boxed()
    }
    fn cases_per_shard(&self, tier: Tier) -> u32 {
        tier.pick(5000, 100000)
    }
    fn sample(&self, case: &Case) -> Value {
        json!({"char_def": render_chardef(case), "unk_def": render_unk(case), "providers": case.providers, "words": case.words.iter().map(|w| text_of(&w.0)).collect::<Vec<_>>(), "texts": case.texts.iter().map(|t| text_of(t)).collect::<Vec<_>>()})
    }
    fn check(&self, case: &Case, ctx: &mut Ctx) -> Report {
        let mut rep = Report::default();
        let n = case.n;
        let chardef = render_chardef(case);
        let unkdef = render_unk(case);
        let mut system = vec![Entry::simple("漢字", 0, 0, 100, &pos_from_str(POS_NOUN))];
        for (w, l, r, c) in &case.words {
            system.push(Entry::simple(&text_of(w), *l as i16, *r as i16, *c, &pos_from_str(POS_PROPER)));
        }
        let dic = DicModel { matrix: Matrix { nl: n, nr: n, lines: vec![] }, system, users: vec![] };
        let mut oov = Vec::new();
        for p in &case.providers {
            oov.push(match p {
                Prov::Mecab => OovPlugin::Mecab { chardef: FileSrc::Text(chardef.clone()), unkdef: FileSrc::Text(unkdef.clone()), user_pos: Some(true) },
                Prov::Regex { regex, strict, max_length, left, right, cost } => OovPlugin::Regex { pos: pos_from_str(POS_PLUGIN), left: *left as i64, right: *right as i64, cost: *cost as i64, regex: regex.clone(), max_length: *max_length, strict: *strict, user_pos: Some(true) },
                Prov::Simple { left, right, cost } => OovPlugin::Simple { pos: pos_from_str(POS_SYM), left: *left as i64, right: *right as i64, cost: *cost as i64, user_pos: Some(true) },
            });
        }
        let cfg = CfgModel { chardef: FileSrc::Text(chardef.clone()), input: vec![], oov, inhibit: None, path: vec![] };
        let (dict, _) = match build_world(&dic, &cfg, ctx) {
            Ok(x) => x,
            Err(e) => {
                if std::env::var("VERIF_DEBUG").is_ok() {
                    eprintln!("REJECT {}", e.describe());
                }
                rep.class("rejected");
                return rep;
            }
        };
        let cd = CharDefModel::parse(&chardef);
        let mut info = BTreeMap::new();
        for c in &case.cat_lines {
            if let Some(b) = cat_bits(&c.name) {
                info.entry(b).or_insert(c);
            }
        }
        let mut unk: BTreeMap<u32, Vec<&UnkLine>> = BTreeMap::new();
        for u in &case.unk_lines {
            if let Some(b) = cat_bits(&u.name) {
                unk.entry(b).or_default().push(u);
            }
        }
        let regexes: Vec<Option<regex::Regex>> = case
            .providers
            .iter()
            .map(|p| match p {
                Prov::Regex { regex, .. } => regex::Regex::new(&format!("^{}", regex.trim_start_matches('^'))).ok(),
                _ => None,
            })
            .collect();
        let g = dict.grammar();
        let pos_name = |id: u32| -> String { g.pos_list.get(id as usize).map(|p| p.join(",")).unwrap_or_else(|| format!("?{}", id)) };
        let plugins = dict.oov_provider_plugins();

        for t in &case.texts {
            let text = text_of(t);
            let mut tok = StatefulTokenizer::new(&dict, Mode::C);
            tok.reset().push_str(&text);
            let res = tok.do_tokenize();
            let input = tok.verif_input();
            let chars: Vec<char> = text.chars().collect();
            let cats: Vec<u32> = chars.iter().map(|c| cd.classes(*c)).collect();
            let runs = class_runs(&cats);
            let nch = chars.len();
            let byte_of: Vec<usize> = text.char_indices().map(|(b, _)| b).chain(std::iter::once(text.len())).collect();
            let can_bow: Vec<bool> = (0..nch).map(|i| input.can_bow(byte_of[i])).collect();
            let reference = Reference { case, cats: cats.clone(), runs: runs.clone(), chars: chars.clone(), can_bow: can_bow.clone(), info: info.clone(), unk: unk.clone(), regexes: regexes.clone() };
            // multi-class character next to a character sharing only some of its classes
            for i in 0..nch.saturating_sub(1) {
                let (a, b) = (cats[i], cats[i + 1]);
                if a.count_ones() >= 2 && a & b != 0 && a & b != a {
                    rep.nontrivial = true;
                }
            }
            if nch > 64 {
                rep.class("text longer than 64 characters");
            }
            // ---- level 1: providers alone ----------------------------------------------------
            for off in 0..nch {
                for (k, p) in case.providers.iter().enumerate() {
                    for pre in [0usize, 1, 2] {
                        let mut created = Created::default();
                        let mut cw = sudachi::analysis::created::CreatedWords::empty();
                        if pre > 0 && off + pre <= nch {
                            created.add(pre);
                            cw = cw.add_word(pre as i64);
                        } else if pre > 0 {
                            continue;
                        }
                        let mut buf = Vec::new();
                        let got = match guarded(|| plugins[k].provide_oov(input, off, cw, &mut buf)) {
                            Ok(Ok(_)) => buf,
                            Ok(Err(e)) => {
                                rep.fail("provider-error", format!("text {:?} offset {}: {}", text, off, e));
                                return rep;
                            }
                            Err(pn) => {
                                rep.fail(&format!("provider-panic:{}", panic_site(&pn)), format!("text {:?} offset {} provider {}: {}", text, off, k, pn));
                                return rep;
                            }
                        };
                        use sudachi::analysis::node::{LatticeNode, RightId};
                        let got: BTreeSet<Cand> = got.iter().map(|nd| (nd.begin(), nd.end(), nd.left_id(), nd.right_id(), nd.cost(), pos_name(nd.word_id().word()))).collect();
                        let want: BTreeSet<Cand> = match p {
                            Prov::Mecab => reference.mecab(off, created),
                            Prov::Simple { left, right, cost } => reference.simple(off, created, *left, *right, *cost),
                            Prov::Regex { .. } => reference.regex(k, off, created, &BTreeSet::new()),
                        }
                        .into_iter()
                        .collect();
                        if got != want {
                            let miss: Vec<_> = want.difference(&got).take(3).collect();
                            let extra: Vec<_> = got.difference(&want).take(3).collect();
                            rep.fail(
                                &format!("provider-candidates:{}", match p { Prov::Mecab => "mecab", Prov::Simple { .. } => "simple", Prov::Regex { .. } => "regex" }),
                                format!("text {:?} offset {} (created lengths {:?}): missing {:?}, unexpected {:?}; class runs {:?}\nchar.def:\n{}unk.def:\n{}", text, off, if pre > 0 { vec![pre] } else { vec![] }, miss, extra, runs, chardef, unkdef),
                            );
                            return rep;
                        }
                    }
                }
            }
            // ---- level 2: the lattice ------------------------------------------------------------
            let lat = tok.verif_lattice();
            let mut want_nodes: Vec<BTreeSet<Cand>> = vec![BTreeSet::new(); nch + 1];
            let mut reachable = vec![false; nch + 1];
            reachable[0] = true;
            let mut disconnect = false;
            for off in 0..nch {
                if !reachable[off] {
                    continue;
                }
                let mut created = Created::default();
                let mut ends: BTreeSet<usize> = BTreeSet::new();
                let mut here: Vec<Cand> = Vec::new();
                // dictionary candidates
                for (wi, e) in dic.system.iter().enumerate() {
                    let k: Vec<char> = e.key.chars().collect();
                    if off + k.len() <= nch && chars[off..off + k.len()] == k[..] {
                        let end = off + k.len();
                        if end < nch && !can_bow[end] {
                            continue;
                        }
                        here.push((off, end, e.left as u16, e.right as u16, e.cost, format!("word{}", wi)));
                        created.add(k.len());
                        ends.insert(end);
                    }
                }
                let mut run_provider = |k: usize, created: &mut Created, ends: &mut BTreeSet<usize>, here: &mut Vec<Cand>| {
                    let c = match &case.providers[k] {
                        Prov::Mecab => reference.mecab(off, *created),
                        Prov::Simple { left, right, cost } => reference.simple(off, *created, *left, *right, *cost),
                        Prov::Regex { .. } => reference.regex(k, off, *created, ends),
                    };
                    for x in c {
                        created.add(x.1 - x.0);
                        ends.insert(x.1);
                        here.push(x);
                    }
                };
                if cats[off] & (NOOOVBOW | NOOOVBOW2) == 0 {
                    for k in 0..case.providers.len() {
                        run_provider(k, &mut created, &mut ends, &mut here);
                    }
                }
                if created.is_empty() {
                    run_provider(case.providers.len() - 1, &mut created, &mut ends, &mut here);
                }
                if created.is_empty() {
                    disconnect = true;
                    break;
                }
                for x in here {
                    if x.1 <= nch {
                        reachable[x.1] = true;
                        want_nodes[x.1].insert(x);
                    }
                }
            }
            match (&res, disconnect) {
                (Err(_), true) => {
                    rep.class("position without candidate (no fallback)");
                    continue;
                }
                (Err(e), false) => {
                    if !reachable[nch] {
                        rep.class("end not reachable");
                        continue;
                    }
                    rep.fail("unexpected-error", format!("text {:?}: every reachable position has a reference candidate but analysis fails: {}", text, e));
                    return rep;
                }
                (Ok(()), true) => {
                    rep.fail("missing-disconnect", format!("text {:?}: the reference finds a reachable position without any candidate but analysis succeeded", text));
                    return rep;
                }
                (Ok(()), false) => {}
            }
            for end in 1..=nch {
                let got: BTreeSet<Cand> = lat
                    .verif_nodes(end)
                    .iter()
                    .map(|v| {
                        let tag = if v.word_id.is_oov() { pos_name(v.word_id.word()) } else { format!("word{}", v.word_id.word()) };
                        (v.begin, v.end, v.left_id, v.right_id, v.cost, tag)
                    })
                    .collect();
                if got != want_nodes[end] {
                    let miss: Vec<_> = want_nodes[end].difference(&got).take(3).collect();
                    let extra: Vec<_> = got.difference(&want_nodes[end]).take(3).collect();
                    rep.fail("lattice-candidates", format!("text {:?}: candidates ending at character {}: missing {:?}, unexpected {:?}; class runs {:?}, can_bow {:?}\nproviders {:?}\nchar.def:\n{}unk.def:\n{}", text, end, miss, extra, runs, can_bow, case.providers, chardef, unkdef));
                    return rep;
                }
            }
            // ---- level 3: OOV morphemes -----------------------------------------------------------
            let mut ml = sudachi::prelude::MorphemeList::empty(&dict);
            if ml.collect_results(&mut tok).is_ok() {
                for m in ml.iter() {
                    if m.word_id().is_oov() {
                        let slice = &text[m.begin()..m.end()];
                        if !m.is_oov() || m.dictionary_id() != -1 || m.normalized_form() != slice || m.dictionary_form() != slice {
                            rep.fail("oov-morpheme", format!("text {:?}: OOV morpheme {:?}: is_oov {}, dictionary {}, normalized {:?}, dictionary form {:?}", text, slice, m.is_oov(), m.dictionary_id(), m.normalized_form(), m.dictionary_form()));
                            return rep;
                        }
                        let p = m.part_of_speech().join(",");
                        if ![POS_NOUN, POS_NUM, POS_USER2, POS_SYM, POS_PLUGIN].contains(&p.as_str()) {
                            rep.fail("oov-pos", format!("text {:?}: OOV morpheme POS {}", text, p));
                            return rep;
                        }
                        rep.class("oov morpheme");
                    }
                }
            }
        }
        let _ = ix(0, 1);
        rep
    }
}
