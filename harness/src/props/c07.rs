//! C07 — text normalisation is the specified context-free function of the input.

use crate::common::*;
use crate::engine::*;
use crate::gen::*;
use crate::model::cfg::*;
use crate::model::dic::*;
use crate::model::norm::*;
use proptest::collection::vec;
use proptest::prelude::*;
use proptest::sample::select;
use serde::{Deserialize, Serialize};
use serde_json::{json, Value};

#[derive(Clone, Debug, Serialize, Deserialize)]
pub enum Case {
    Default { table: String, texts: Vec<DText> },
    Psm {
        marks: Vec<char>,
        replacement: Option<String>,
        texts: Vec<String>,
        /// the plugin runs after DefaultInputTextPlugin (shipped table), as in the shipped configuration: it works on the rewritten text
        #[serde(default)]
        after_default: bool,
    },
    Yomi {
        chardef_test: bool,
        left: Vec<char>,
        right: Vec<char>,
        max_len: usize,
        texts: Vec<Vec<YP>>,
        /// the shipped char.def with the ideographs of the supplementary planes added to KANJI (a customised definition)
        #[serde(default)]
        astral: bool,
    },
    /// a contiguous block of scalar values, each normalised alone with the shipped table
    Sweep { from: u32, to: u32, step: u32 },
}

/// text piece for the rewrite-table cases
#[derive(Clone, Debug, Serialize, Deserialize)]
pub enum TP {
    /// a key of the table (index in file order)
    Key(u16),
    S(String),
}

#[derive(Clone, Debug, Serialize, Deserialize)]
pub struct DText {
    /// keep only pieces that need neither lower-casing nor NFKC (exercises the optimised path)
    pub fast: bool,
    pub pieces: Vec<TP>,
}

fn is_fast(s: &str) -> bool {
    s.chars().all(|c| !c.is_uppercase() && norm_char(c, false) == c.to_string())
}

/// text piece for the yomigana cases
#[derive(Clone, Debug, Serialize, Deserialize)]
pub enum YP {
    /// kanji, left bracket index, number of kana, right bracket index, kana selector
    Group(u8, u8, u8, u8, u8),
    C(char),
    /// like Group, but the head character and one reading character are taken from the ends (+-1)
    /// of the KANJI / HIRAGANA / KATAKANA ranges of the configured char.def
    Edge(u16, u8, u16, u8, u8),
}

pub fn render_dtext(table: &str, t: &DText) -> String {
    if !t.fast {
        return render_tp(table, &t.pieces);
    }
    let mut s = String::new();
    for p in &t.pieces {
        let piece = render_tp(table, std::slice::from_ref(p));
        if is_fast(&piece) {
            s.push_str(&piece);
        }
    }
    s
}

pub fn render_tp(table: &str, t: &[TP]) -> String {
    let keys: Vec<String> = table.lines().filter(|l| !l.starts_with('#')).filter_map(|l| {
        let c: Vec<&str> = l.split_whitespace().collect();
        if c.len() == 2 { Some(c[0].to_string()) } else { None }
    }).collect();
    let mut s = String::new();
    for p in t {
        match p {
            TP::Key(i) => {
                if !keys.is_empty() {
                    s.push_str(&keys[ix(*i, keys.len())]);
                }
            }
            TP::S(x) => s.push_str(x),
        }
    }
    s
}

/// characters at the ends of the KANJI (0) / reading (1) ranges of a char.def, and their neighbours
pub fn edge_chars(cd: &crate::model::chardef::CharDefModel, reading: bool) -> Vec<char> {
    use crate::model::chardef::{HIRAGANA, KANJI, KATAKANA};
    let mask = if reading { HIRAGANA | KATAKANA } else { KANJI };
    let mut v = Vec::new();
    for r in &cd.ranges {
        if r.cats & mask != 0 {
            for cp in [r.begin.saturating_sub(1), r.begin, r.end, r.end + 1] {
                if let Some(c) = char::from_u32(cp) {
                    if !c.is_control() && !v.contains(&c) {
                        v.push(c);
                    }
                }
            }
        }
    }
    if v.is_empty() {
        v.push('漢');
    }
    v
}

pub fn render_yp_cd(cd: &crate::model::chardef::CharDefModel, left: &[char], right: &[char], t: &[YP]) -> String {
    let mut s = String::new();
    let (ek, er) = (edge_chars(cd, false), edge_chars(cd, true));
    for p in t {
        match p {
            YP::Edge(k, l, r, rb, n) => {
                s.push(ek[ix(*k, ek.len())]);
                s.push(left[*l as usize % left.len()]);
                let pos = *n % 3;
                for j in 0..(1 + *n % 3) {
                    if j == pos % (1 + *n % 3) {
                        s.push(er[ix(*r, er.len())]);
                    } else {
                        s.push('か');
                    }
                }
                s.push(right[*rb as usize % right.len()]);
            }
            other => s.push_str(&render_yp(left, right, std::slice::from_ref(other))),
        }
    }
    s
}

pub fn render_yp(left: &[char], right: &[char], t: &[YP]) -> String {
    const KANJI: &[char] = &['京', '都', '漢', '字', '一', '々'];
    const KANA: &[char] = &['か', 'な', 'カ', 'ナ', 'ー', 'ん', 'ァ', 'ゔ'];
    let mut s = String::new();
    for p in t {
        match p {
            YP::Group(k, l, n, r, sel) => {
                s.push(KANJI[*k as usize % KANJI.len()]);
                s.push(left[*l as usize % left.len()]);
                for j in 0..(*n % 8) {
                    s.push(KANA[(*sel as usize + j as usize * 3) % KANA.len()]);
                }
                s.push(right[*r as usize % right.len()]);
            }
            YP::C(c) => s.push(*c),
            YP::Edge(..) => {}
        }
    }
    s
}

pub struct C07;

const TAB_ALPHA: &[&str] = &["a", "b", "c", "A", "Ａ", "ア", "ｱ", "ﾞ", "㍿", "é", "É", "ー", "漢", "ǅ", "Σ", "𠮷", "\u{e0100}", "😀", "#", "か", "\u{3099}", "\u{309a}", "e\u{301}"];
/// alphabet of the enumerated keys of big tables (1-3 symbols: short keys are prefixes and infixes of longer ones)
const BIG_ALPHA: &[&str] = &["ぁ", "い", "ぅ", "え", "お", "か", "ｶ", "ﾞ", "う", "ぃ", "𠮷", "z"];

pub fn rewrite_table() -> BoxedStrategy<String> {
    let keych = select(TAB_ALPHA);
    let valch = select(vec!["a", "b", "x", "A", "ア", "ガ", "ー", "京都", "1", "Ａ", "㍿", "#", "♯#"]);
    let pair = (vec(keych, 1..=3).prop_map(|v| v.concat()), vec(valch, 1..=2).prop_map(|v| v.concat()));
    let ignore = select(vec!["Ａ", "㍿", "É", "ﷺ", "ｱ", "a", "Ⅲ", "A", "ǅ", "ア"]);
    let ext = (any::<u16>(), select(TAB_ALPHA), select(vec!["y", "ガ", "A", "京"]));
    // tables of hundreds of keys (sizes around 2^k up to 1,100; the shipped table has 182)
    let big = prop::option::weighted(0.04, (crate::gen::boundary_len(1100), any::<u16>()));
    // one table in ten is the shipped one (182 keys, each of which contains a voiced sound mark: no key is made of
    // characters that are lower-case and normalised already), or a table whose every key contains a combining mark
    let special = prop_oneof![
        18 => Just(0u8),
        1 => Just(1u8),
        1 => Just(2u8),
    ];
    (vec(pair, 0..8), vec(ext, 0..4), vec(ignore, 0..4), big, special)
        .prop_map(|(mut pairs, exts, ign, big, special)| {
            if special == 1 {
                return read_src("rewrite.def", &FileSrc::Shipped);
            }
            if special == 2 {
                for (i, p) in pairs.iter_mut().enumerate() {
                    p.0.push_str(["\u{3099}", "\u{309a}", "ﾞ"][i % 3]);
                }
            }
            if let Some((n, rot)) = big {
                let b = BIG_ALPHA.len();
                for i in 0..n {
                    // every third enumerated key is left out so that longest-match has gaps to fall into
                    let j = (i * 3 + rot as usize % 3) / 2;
                    let key = if j < b {
                        BIG_ALPHA[j].to_string()
                    } else if j < b + b * b {
                        let k = j - b;
                        format!("{}{}", BIG_ALPHA[k / b], BIG_ALPHA[k % b])
                    } else {
                        let k = (j - b - b * b) % (b * b * b);
                        format!("{}{}{}", BIG_ALPHA[k / (b * b)], BIG_ALPHA[(k / b) % b], BIG_ALPHA[k % b])
                    };
                    pairs.push((key, format!("K{}", i)));
                }
            }
            // keys that extend other keys by one symbol
            for (i, c, v) in exts {
                if !pairs.is_empty() {
                    let base = pairs[ix(i, pairs.len())].0.clone();
                    pairs.push((format!("{}{}", base, c), v.to_string()));
                }
            }
            let mut seen = std::collections::BTreeSet::new();
            let mut s = String::from("# generated\n");
            for i in ign {
                s.push_str(i);
                s.push('\n');
            }
            for (k, v) in pairs {
                if !seen.insert(k.clone()) {
                    continue;
                }
                s.push_str(&format!("{}\t{}\n", k, v));
            }
            s
        })
        .boxed()
}

fn table_text(max: usize) -> BoxedStrategy<Vec<TP>> {
    let ch = prop_oneof![
        6 => any::<u16>().prop_map(TP::Key),
        8 => select(TAB_ALPHA).prop_map(|s| TP::S(s.to_string())),
        2 => select(BIG_ALPHA).prop_map(|s| TP::S(s.to_string())),
        3 => pool_char().prop_map(|c| TP::S(c.to_string())),
        1 => select(vec!["㌀", "ﷺ", "Ⅲ", "ｶﾞ", "Ｚ", "ß", "İ", "ǅ", "ǈ", "ᾈ", "ſ", "K", "Å"]).prop_map(|s| TP::S(s.to_string())),
    ];
    vec(ch, 0..=max).boxed()
}

fn psm_text(max: usize) -> BoxedStrategy<String> {
    let ch = prop_oneof![
        8 => select(vec!['ー', '-', '⁓', '〜', '〰', '~', ']', '^', '\\', '[', '&']),
        // compatibility forms that the default plugin turns into marks
        2 => select(vec!['ｰ', '－', '～', '＾', '＆', '［']),
        4 => select(vec!['あ', 'ア', 'a', 'x', '京', 'ｽ', 'ﾊ', 'ﾟ', 'A']),
        1 => pool_char(),
    ];
    vec(ch, 0..=max).prop_map(|v| v.into_iter().collect()).boxed()
}

fn yomi_text(max: usize) -> BoxedStrategy<Vec<YP>> {
    let ch = prop_oneof![
        6 => (any::<u8>(), any::<u8>(), any::<u8>(), any::<u8>(), any::<u8>()).prop_map(|(a, b, c, d, e)| YP::Group(a, b, c, d, e)),
        3 => (any::<u16>(), any::<u8>(), any::<u16>(), any::<u8>(), any::<u8>()).prop_map(|(a, b, c, d, e)| YP::Edge(a, b, c, d, e)),
        3 => select(vec!['京', '都', '漢', '字', '一', '々']).prop_map(YP::C),
        3 => select(vec!['(', '（', '[', '《', ')', '）', ']', '》']).prop_map(YP::C),
        4 => select(vec!['か', 'な', 'カ', 'ナ', 'ー', 'ん', 'ァ', 'ゔ']).prop_map(YP::C),
        2 => select(vec!['a', '1', ' ', '、']).prop_map(YP::C),
        1 => pool_char().prop_map(YP::C),
    ];
    vec(ch, 0..=max).boxed()
}

struct Loaded {
    dict: Dict,
}

fn yomi_chardef(test: bool, astral: bool) -> FileSrc {
    let base = if test { FileSrc::TestRes } else { FileSrc::Shipped };
    if astral {
        FileSrc::Text(format!("{}\n0x20000..0x2FFFF KANJI\n0x30000..0x3134A KANJI\n", read_src("char.def", &base)))
    } else {
        base
    }
}

fn load_with(ctx: &Ctx, cfg: &CfgModel) -> Result<Loaded, String> {
    let dic = DicModel {
        matrix: Matrix { nl: 1, nr: 1, lines: vec![] },
        system: vec![Entry::simple("a", 0, 0, 0, &pos_from_str(POS_NOUN))],
        users: vec![],
    };
    match build_world(&dic, cfg, ctx) {
        Ok((dict, _)) => Ok(Loaded { dict }),
        Err(e) => Err(e.describe()),
    }
}

fn base_cfg(input: Vec<InputPlugin>, chardef: FileSrc) -> CfgModel {
    let mut c = CfgModel::minimal(&pos_from_str(POS_NOUN));
    c.chardef = chardef;
    c.input = input;
    c
}

/// reference with the two readings of "lower-cased" for title-case (Lt) characters
fn reference_default(t: &RewriteTable, text: &str) -> (String, Option<String>) {
    let r = normalize_default(t, text);
    if !r.saw_titlecase {
        return (r.text, None);
    }
    // alternative: Lt characters that are not consumed by a key are lower-cased first
    let chars: Vec<(usize, char)> = text.char_indices().collect();
    let mut out = String::new();
    let mut i = 0;
    while i < chars.len() {
        let mut hit = None;
        for k in (1..=t.max_key_chars.min(chars.len() - i)).rev() {
            let b = chars[i].0;
            let e = if i + k < chars.len() { chars[i + k].0 } else { text.len() };
            if let Some(v) = t.replace.get(&text[b..e]) {
                hit = Some((k, v.clone()));
                break;
            }
        }
        if let Some((k, v)) = hit {
            out.push_str(&v);
            i += k;
            continue;
        }
        let c = chars[i].1;
        if is_titlecase(c) {
            let lower: String = c.to_lowercase().collect();
            if t.exempt.contains(&c) {
                out.push_str(&lower);
            } else {
                out.push_str(&unicode_normalization::UnicodeNormalization::nfkc(lower.chars()).collect::<String>());
            }
        } else {
            out.push_str(&norm_char(c, t.exempt.contains(&c)));
        }
        i += 1;
    }
    (r.text, Some(out))
}

impl Property for C07 {
    type Case = Case;
    fn id(&self) -> &'static str {
        "C07"
    }
    fn rule(&self) -> &'static str {
        "cases: (a) a generated rewrite table (0-10 pairs over an 18-symbol alphabet incl. astral characters and a variation selector; in 4 % of the tables up to 1,100 further enumerated keys of 1-3 symbols so that keys are prefixes of other keys, keys needing NFKC / \
         lower-casing, 0-4 exempt characters that may also start keys) and 1-6 texts over the same alphabet + pool characters: the plugin's output \
         (public trait, fresh buffer) must equal the reference (longest key at position, else lower-case then NFKC unless exempt) and must satisfy \
         norm(x|y) == norm(x)|norm(y) for suffixes y that flip the fast/slow path; (b) prolonged-sound-mark settings x texts against 'maximal runs of \
         >= 2 marks become the symbol'; (c) yomigana settings x texts against 'KANJI char + left bracket + 1..n HIRAGANA|KATAKANA chars + right \
         bracket loses the bracket group'; (d) every Unicode scalar value alone with the shipped table (quick: stride sample of 70,000; thorough: all). \
         Non-trivial: a text with a position where >= 2 keys match, or with both a key match and a character needing NFKC/lower-casing; a changed \
         text for (b)/(c); a changed scalar for (d)."
    }
    fn assumptions(&self) -> Vec<&'static str> {
        vec![
            "unicode-normalization crate and Rust's char::to_lowercase / is_uppercase are the trusted base of the reference",
            "title-case (Lt) letters: both 'left as is' and 'lower-cased' are accepted before NFKC (the statement does not pin this down)",
            "lower-casing happens before NFKC (as in the Java original)",
            "bracket, KANJI-class and reading-class sets are pairwise disjoint in generated yomigana settings",
        ]
    }
    fn strategy(&self, tier: Tier) -> BoxedStrategy<Case> {
        let n = tier.pick(12, 40);
        let dtext = (prop::bool::weighted(0.35), table_text(n)).prop_map(|(fast, pieces)| DText { fast, pieces });
        let default = (rewrite_table(), vec(dtext, 1..=6)).prop_map(|(table, texts)| Case::Default { table, texts });
        let psm = (
            prop::sample::subsequence(vec!['ー', '-', '⁓', '〜', '〰', '~', ']', '^', '\\', '[', '&'], 1..=6),
            prop::option::of(select(vec!["ー".to_string(), "-".to_string(), "ーー".to_string(), "x".to_string(), "".to_string()])),
            vec(psm_text(n), 1..=6),
            prop::bool::weighted(0.35),
        )
            .prop_map(|(marks, replacement, texts, after_default)| Case::Psm { marks, replacement, texts, after_default });
        let yomi = (
            any::<bool>(),
            prop::sample::subsequence(vec!['(', '（', '[', '《'], 1..=3),
            prop::sample::subsequence(vec![')', '）', ']', '》'], 1..=3),
            1usize..=6,
            vec(yomi_text(n), 1..=6),
            prop::bool::weighted(0.3),
        )
            .prop_map(|(chardef_test, left, right, max_len, texts, astral)| Case::Yomi { chardef_test, left, right, max_len, texts, astral });
        prop_oneof![5 => default, 2 => psm, 2 => yomi].boxed()
    }
    fn cases_per_shard(&self, tier: Tier) -> u32 {
        tier.pick(5000, 100000)
    }
    fn sample(&self, case: &Case) -> Value {
        match case {
            Case::Default { table, texts } => json!({"rewrite_table": table, "texts": texts.iter().map(|t| render_dtext(table, t)).collect::<Vec<_>>()}),
            Case::Yomi { chardef_test, left, right, max_len, texts, astral } => json!({"yomigana": {"test_chardef": chardef_test, "astral_kanji": astral, "left": left, "right": right, "max": max_len}, "texts": texts.iter().map(|t| render_yp_cd(&chardef_of(&yomi_chardef(*chardef_test, *astral)), left, right, t)).collect::<Vec<_>>()}),
            other => serde_json::to_value(other).unwrap(),
        }
    }
    fn check(&self, case: &Case, ctx: &mut Ctx) -> Report {
        let mut rep = Report::default();
        match case {
            Case::Default { table, texts } => {
                let cfg = base_cfg(vec![InputPlugin::Default { rewrite: FileSrc::Text(table.clone()) }], FileSrc::Shipped);
                let l = match load_with(ctx, &cfg) {
                    Ok(l) => l,
                    Err(e) => {
                        if std::env::var("VERIF_DEBUG").is_ok() {
                            eprintln!("REJECT {}", e);
                        }
                        rep.class("rejected");
                        return rep;
                    }
                };
                let t = RewriteTable::parse(table);
                let run = |s: &str| normalized_text(&l.dict, s).map_err(|e| format!("{}", e));
                // the same plugin configured twice in a row (every other table): the second instance works on the output of
                // the first, so the result is the reference applied twice
                let twice = if table.len() % 2 == 0 {
                    load_with(ctx, &base_cfg(vec![InputPlugin::Default { rewrite: FileSrc::Text(table.clone()) }, InputPlugin::Default { rewrite: FileSrc::Text(table.clone()) }], FileSrc::Shipped)).ok()
                } else {
                    None
                };
                for x in texts {
                    let x = &render_dtext(table, x);
                    if let Some(l2) = &twice {
                        let (w1, a1) = reference_default(&t, x);
                        let (w2, a2) = reference_default(&t, &w1);
                        if a1.is_none() && a2.is_none() {
                            match normalized_text(&l2.dict, x) {
                                Ok(g2) if g2 == w2 => rep.class("two instances in a row"),
                                Ok(g2) => {
                                    rep.fail("default-twice-reference", format!("table {:?} text {:?}: two instances of the plugin in a row give {:?}, the reference applied twice gives {:?} (once: {:?})", table, x, g2, w2, w1));
                                    return rep;
                                }
                                Err(e) => {
                                    // the first pass may push the text over the length limit
                                    let _ = e;
                                }
                            }
                        }
                    }
                    let got = match run(x) {
                        Ok(g) => g,
                        Err(e) => {
                            rep.fail("plugin-error", format!("text {:?}: {}", x, e));
                            return rep;
                        }
                    };
                    let (want, alt) = reference_default(&t, x);
                    if got != want && alt.as_deref() != Some(got.as_str()) {
                        rep.fail("default-reference", format!("table {:?} text {:?}: plugin gives {:?}, reference {:?}", table, x, got, want));
                        return rep;
                    }
                    // non-triviality: a position with >= 2 matching keys, or key + char needing work
                    let mut multi = false;
                    let mut keyhit = false;
                    for (b, _) in x.char_indices() {
                        let n = t.replace.keys().filter(|k| x[b..].starts_with(k.as_str())).count();
                        if n >= 2 {
                            multi = true;
                        }
                        if n >= 1 {
                            keyhit = true;
                        }
                    }
                    let needs = x.chars().any(|c| c.is_uppercase() || norm_char(c, false) != c.to_string());
                    if multi {
                        rep.class("position with >= 2 matching keys");
                    }
                    if multi || (keyhit && needs) {
                        rep.nontrivial = true;
                    }
                    if multi && needs {
                        rep.class("multi-key position and slow path");
                    }
                    if multi && !needs {
                        rep.class("multi-key position and fast path");
                    }
                    // context independence (model free)
                    for y in ["", "Ａ", "a", "㌀", "A"] {
                        let joined = format!("{}|{}", x, y);
                        let (gj, gy) = match (run(&joined), run(y)) {
                            (Ok(a), Ok(b)) => (a, b),
                            _ => continue,
                        };
                        let want = format!("{}|{}", got, gy);
                        if gj != want {
                            rep.fail("context-independence", format!("table {:?}: norm({:?}) = {:?} but norm({:?}) + '|' + norm({:?}) = {:?}", table, joined, gj, x, y, want));
                            return rep;
                        }
                    }
                }
            }
            Case::Psm { marks, replacement, texts, after_default } => {
                let mut plugins = vec![InputPlugin::Psm { marks: marks.clone(), replacement: replacement.clone() }];
                if *after_default {
                    plugins.insert(0, InputPlugin::Default { rewrite: FileSrc::Shipped });
                    rep.class("psm after the default plugin");
                }
                let shipped = if *after_default { Some(RewriteTable::parse(&read_src("rewrite.def", &FileSrc::Shipped))) } else { None };
                let cfg = base_cfg(plugins, FileSrc::Shipped);
                let l = match load_with(ctx, &cfg) {
                    Ok(l) => l,
                    Err(_) => {
                        rep.class("rejected");
                        return rep;
                    }
                };
                let sym = replacement.clone().unwrap_or_else(|| "ー".to_string());
                for x in texts {
                    let got = match normalized_text(&l.dict, x) {
                        Ok(g) => g,
                        Err(e) => {
                            rep.fail("plugin-error", format!("psm text {:?}: {}", x, e));
                            return rep;
                        }
                    };
                    // after the default plugin: the marks are looked for in the text that plugin produced (half-width and
                    // full-width marks have become the plain ones there)
                    let (mid, alt) = match &shipped {
                        Some(t) => reference_default(t, x),
                        None => (x.clone(), None),
                    };
                    let want = normalize_psm(marks, &sym, &mid).text;
                    if got != want && alt.as_ref().map(|a| normalize_psm(marks, &sym, a).text) == Some(got.clone()) {
                        rep.class("psm: title-case reading");
                        continue;
                    }
                    if mid != *x && want != mid {
                        rep.class("psm collapsed a run of the text rewritten by the default plugin");
                    }
                    if got != want {
                        rep.fail("psm-reference", format!("marks {:?} symbol {:?} text {:?}: plugin gives {:?}, reference {:?}", marks, sym, x, got, want));
                        return rep;
                    }
                    if want != *x {
                        rep.nontrivial = true;
                        rep.class("psm collapsed a run");
                    }
                }
            }
            Case::Yomi { chardef_test, left, right, max_len, texts, astral } => {
                let cd_src = yomi_chardef(*chardef_test, *astral);
                if *astral {
                    rep.class("yomigana: char.def with supplementary-plane kanji");
                }
                let cfg = base_cfg(vec![InputPlugin::Yomigana { left: left.clone(), right: right.clone(), max_len: *max_len }], cd_src.clone());
                let l = match load_with(ctx, &cfg) {
                    Ok(l) => l,
                    Err(_) => {
                        rep.class("rejected");
                        return rep;
                    }
                };
                let cd = chardef_of(&cd_src);
                for x in texts {
                    let x = &render_yp_cd(&cd, left, right, x);
                    let got = match normalized_text(&l.dict, x) {
                        Ok(g) => g,
                        Err(e) => {
                            rep.fail("plugin-error", format!("yomigana text {:?}: {}", x, e));
                            return rep;
                        }
                    };
                    let want = normalize_yomigana(&cd, left, right, *max_len, x).text;
                    if got != want {
                        rep.fail("yomigana-reference", format!("left {:?} right {:?} max {} text {:?}: plugin gives {:?}, reference {:?}", left, right, max_len, x, got, want));
                        return rep;
                    }
                    if want != *x {
                        rep.nontrivial = true;
                        rep.class("yomigana removed");
                    }
                }
            }
            Case::Sweep { from, to, step } => {
                let cfg = base_cfg(vec![InputPlugin::Default { rewrite: FileSrc::Shipped }], FileSrc::Shipped);
                let l = match load_with(ctx, &cfg) {
                    Ok(l) => l,
                    Err(e) => {
                        rep.fail("sweep-load", e);
                        return rep;
                    }
                };
                let t = RewriteTable::parse(&read_src("rewrite.def", &FileSrc::Shipped));
                let mut cp = *from;
                while cp < *to {
                    if let Some(c) = char::from_u32(cp) {
                        let x = c.to_string();
                        match normalized_text(&l.dict, &x) {
                            Ok(got) => {
                                let (want, alt) = reference_default(&t, &x);
                                if got != want && alt.as_deref() != Some(got.as_str()) {
                                    rep.fail("scalar-reference", format!("U+{:04X}: plugin gives {:?}, reference {:?}", cp, got, want));
                                    return rep;
                                }
                                if got != x {
                                    rep.nontrivial = true;
                                }
                            }
                            Err(e) => {
                                rep.fail("plugin-error", format!("U+{:04X}: {}", cp, e));
                                return rep;
                            }
                        }
                    }
                    cp += (*step).max(1);
                }
            }
        }
        rep
    }
    fn extra(&self, tier: Tier, seed: u64, ctx: &mut Ctx, stats: &mut Stats) -> Vec<(Value, Failure)> {
        // scalar sweep, 64 blocks in parallel
        let step = tier.pick(16u32, 1u32);
        let off = (seed % step as u64) as u32;
        let blocks: Vec<Case> = (0..68u32).map(|b| Case::Sweep { from: b * 0x4000 + off, to: ((b + 1) * 0x4000).min(0x110000), step }).collect();
        let results: Vec<(usize, Report)> = std::thread::scope(|sc| {
            let mut hs = Vec::new();
            for (ci, part) in blocks.chunks(5).enumerate() {
                let dir = ctx.dir.join(format!("sw{}", ci));
                let tier = ctx.tier;
                hs.push(sc.spawn(move || {
                    let mut c2 = Ctx { dir, strict: false, tier };
                    part.iter().enumerate().map(|(i, c)| (ci * 5 + i, self.check(c, &mut c2))).collect::<Vec<_>>()
                }));
            }
            hs.into_iter().flat_map(|h| h.join().unwrap()).collect()
        });
        let mut fails = Vec::new();
        let mut scalars = 0u64;
        for (i, rep) in results {
            if let Case::Sweep { from, to, step } = &blocks[i] {
                scalars += ((to - from) / step) as u64;
            }
            stats.record(&format!("sweep-block-{}-{}", i, off), rep.nontrivial && rep.failure.is_none(), Some("scalar-sweep-block"));
            if let Some(f) = rep.failure {
                fails.push((serde_json::to_value(&blocks[i]).unwrap(), f));
            }
        }
        stats.extra.insert("scalars_checked_alone".into(), json!(scalars));
        stats.extra.insert("scalar_sweep_complete".into(), json!(step == 1));
        fails
    }
}
