//! C04 — dictionary lookup returns exactly the entries that prefix-match the text.

use crate::common::*;
use crate::engine::*;
use crate::gen::*;
use crate::model::cfg::CfgModel;
use crate::model::dic::*;
use proptest::collection::vec;
use proptest::prelude::*;
use proptest::sample::select;
use serde::{Deserialize, Serialize};
use serde_json::{json, Value};
use std::collections::BTreeMap;
use sudachi::analysis::stateless_tokenizer::DictionaryAccess;
use sudachi::dic::subset::InfoSubset;
use sudachi::prelude::MorphemeList;

#[derive(Clone, Debug, Serialize, Deserialize)]
pub struct Case {
    pub dic: DicModel,
    pub texts: Vec<Vec<Piece>>,
    pub queries: Vec<u16>,
    /// Some(seed): the deterministic big dictionary (>= 20,000 ids) instead of `dic`
    #[serde(default)]
    pub big: Option<(u64, u8)>,
    /// Some(seed): the deterministic dictionary whose double array exceeds 2^21 units (extended offsets)
    #[serde(default)]
    pub huge: Option<u64>,
}

pub struct C04;

const ALPHA: &[&str] = &["a", "b", "c", "あ", "ぃ", "い", "ア", "𠮷", "𠮸", "😀", "é", "è", "\u{1}", "\u{7f}", "\u{80}", "\u{7ff}", "\u{800}", "\u{ffff}", "\u{10000}", "\u{10ffff}", "。"];

fn lexicon(max_entries: usize, user: bool) -> BoxedStrategy<Vec<Entry>> {
    let key = prop_oneof![
        6 => vec(select(ALPHA), 1..=4).prop_map(|v| v.concat()),
        1 => vec(select(&ALPHA[..3]), 1..=7).prop_map(|v| v.concat()),
    ];
    // (key, non-indexed, number of homographs)
    // (key, non-indexed, number of homographs, row spelling: CSV syntax variant / escapes, the negative left id used)
    let spec = (key, prop::bool::weighted(0.15), prop_oneof![20 => 1usize..=3, 2 => 4usize..=20, 1 => Just(127usize)], prop_oneof![3 => Just((0u8, 0u8)), 1 => (0u8..128, 0u8..3)], select(vec![-1i16, -1, -2, -7, i16::MIN]));
    vec(spec, 1..=max_entries)
        .prop_map(move |specs| {
            let pos = pos_from_str(if user { POS_USER1 } else { POS_NOUN });
            let mut v = Vec::new();
            let mut big = false;
            for (k, ni, mut n, (syntax, esc), neg) in specs {
                if n > 20 {
                    if big {
                        n = 2;
                    }
                    big = true;
                }
                for j in 0..n {
                    let mut e = Entry::simple(&k, 0, 0, 100 + j as i16, &pos);
                    if ni && j % 2 == 0 {
                        // any negative left id declares the row non-indexed
                        e.left = neg;
                    }
                    e.syntax = syntax;
                    e.esc = esc;
                    v.push(e);
                }
            }
            if v.iter().all(|e| e.left < 0) {
                v[0].left = 0;
            }
            v
        })
        .boxed()
}

pub fn model_lookup(dic: &DicModel, bytes: &[u8], off: usize) -> BTreeMap<(u8, u32, usize), u32> {
    let mut m = BTreeMap::new();
    for d in 0..dic.num_dics() {
        for (n, e) in dic.dic(d).iter().enumerate() {
            if !e.indexed() {
                continue;
            }
            let k = e.key.as_bytes();
            if bytes.len() >= off + k.len() && &bytes[off..off + k.len()] == k {
                *m.entry((d as u8, n as u32, off + k.len())).or_insert(0) += 1;
            }
        }
    }
    m
}

impl C04 {
    fn check_dict(&self, rep: &mut Report, dic: &DicModel, dict: &Dict, texts: &[String], queries: &[String]) {
        let lex = dict.lexicon();
        for text in texts {
            let bytes = text.as_bytes();
            for off in 0..=bytes.len() {
                let mut got: BTreeMap<(u8, u32, usize), u32> = BTreeMap::new();
                for e in lex.lookup(bytes, off) {
                    *got.entry((e.word_id.dic(), e.word_id.word(), e.end)).or_insert(0) += 1;
                }
                let want = model_lookup(dic, bytes, off);
                if got != want {
                    let missing: Vec<_> = want.iter().filter(|(k, v)| got.get(k) != Some(v)).take(4).collect();
                    let extra: Vec<_> = got.iter().filter(|(k, v)| want.get(k) != Some(v)).take(4).collect();
                    rep.fail(
                        "lookup-set",
                        format!("text {:?} offset {}: expected-but-wrong/missing (dic,word,end)->count {:?}; reported-but-unexpected {:?}", text, off, missing, extra),
                    );
                    return;
                }
                let ends: std::collections::BTreeSet<usize> = want.keys().map(|k| k.2).collect();
                let dics: std::collections::BTreeSet<u8> = want.keys().map(|k| k.0).collect();
                if ends.len() >= 2 || want.len() >= 2 || dics.len() >= 2 {
                    rep.nontrivial = true;
                }
                if dics.len() >= 2 {
                    rep.class("multi-dictionary-offset");
                }
                if want.len() >= 100 {
                    rep.class("100+ homographs");
                }
            }
        }
        // exact-surface lookup (what Python's Dictionary.lookup calls)
        for q in queries {
            let mut ml = MorphemeList::empty(dict);
            let r = ml.lookup(q, InfoSubset::all());
            let n = match r {
                Ok(n) => n,
                Err(e) => {
                    if q.len() > 49_149 {
                        continue;
                    }
                    rep.fail("exact-lookup-error", format!("query {:?}: {}", q, e));
                    return;
                }
            };
            let mut got: Vec<(u8, u32)> = ml.iter().map(|m| (m.word_id().dic(), m.word_id().word())).collect();
            got.sort();
            let mut want: Vec<(u8, u32)> = Vec::new();
            for d in 0..dic.num_dics() {
                for (i, e) in dic.dic(d).iter().enumerate() {
                    if e.indexed() && e.key == *q {
                        want.push((d as u8, i as u32));
                    }
                }
            }
            want.sort();
            if got != want || n != want.len() {
                rep.fail("exact-lookup", format!("query {:?}: reported {:?} (count {}), expected {:?}", q, got, n, want));
                return;
            }
            for m in ml.iter() {
                if m.begin() != 0 || m.end() != q.len() || &*m.surface() != q.as_str() {
                    rep.fail("exact-lookup-range", format!("query {:?}: morpheme range {}..{}", q, m.begin(), m.end()));
                    return;
                }
            }
        }
    }
}

impl Property for C04 {
    type Case = Case;
    fn id(&self) -> &'static str {
        "C04"
    }
    fn rule(&self) -> &'static str {
        "case = system lexicon + 0-3 (thorough: 0-14) user lexicons built for index stress (keys over a 21-symbol alphabet chosen around UTF-8 width \
         boundaries, 1-7 characters, prefix chains, siblings, 1-127 homographs, non-indexed rows) and 1-6 texts made of keys, keys cut short/extended, \
         noise; LexiconSet::lookup is compared at EVERY byte offset (also inside characters) with a linear scan of the source rows as multisets of \
         (dictionary, word number, end); exact-surface lookup is compared for every key and some non-keys. Non-trivial: a case with an offset where >= 2 \
         rows match. Extra: one large dictionary (>= 20,000 ids, word-id table beyond 65,535 bytes)."
    }
    fn strategy(&self, tier: Tier) -> BoxedStrategy<Case> {
        let maxu = tier.pick(3usize, 14usize);
        let maxe = tier.pick(20usize, 60usize);
        (
            lexicon(maxe, false),
            vec(lexicon(8, true), 0..=maxu),
            vec(pieces(tier.pick(8, 20)), 1..=6),
            vec(any::<u16>(), 0..6),
        )
            .prop_map(|(system, users, texts, queries)| Case {
                dic: DicModel { matrix: Matrix { nl: 1, nr: 1, lines: vec![] }, system, users },
                texts,
                queries,
                big: None,
                huge: None,
            })
            .boxed()
    }
    fn cases_per_shard(&self, tier: Tier) -> u32 {
        tier.pick(2500, 50000)
    }
    fn sample(&self, case: &Case) -> Value {
        let keys = all_keys(&case.dic);
        json!({
            "system_keys": case.dic.system.iter().map(|e| format!("{}{}", e.key, if e.indexed() {""} else {"(non-indexed)"})).collect::<Vec<_>>(),
            "user_keys": case.dic.users.iter().map(|u| u.iter().map(|e| e.key.clone()).collect::<Vec<_>>()).collect::<Vec<_>>(),
            "texts": case.texts.iter().map(|t| render_pieces(&keys, t)).collect::<Vec<_>>(),
        })
    }
    fn check(&self, case: &Case, ctx: &mut Ctx) -> Report {
        let mut rep = Report::default();
        let cfg = CfgModel::minimal(&pos_from_str(POS_NOUN));
        if let Some(seed) = case.huge {
            check_huge(&mut rep, seed, ctx);
            return rep;
        }
        if let Some((seed, maxh)) = case.big {
            let (dic, texts, queries) = big_dictionary(seed, maxh.max(1));
            match build_world(&dic, &cfg, ctx) {
                Ok((dict, _)) => {
                    self.check_dict(&mut rep, &dic, &dict, &texts, &queries);
                    rep.class("big-dictionary");
                }
                Err(e) => rep.fail("big-dictionary-build", e.describe()),
            }
            return rep;
        }
        let (dict, _) = match build_world(&case.dic, &cfg, ctx) {
            Ok(x) => x,
            Err(e) => {
                if std::env::var("VERIF_DEBUG").is_ok() {
                    eprintln!("REJECT {}", e.describe());
                }
                rep.class("rejected");
                return rep;
            }
        };
        let keys = all_keys(&case.dic);
        let mut texts: Vec<String> = case.texts.iter().map(|t| render_pieces(&keys, t)).collect();
        // keys cut one byte short (on a char boundary or not is irrelevant for byte lookup: use chars) and extended
        if let Some(k) = keys.first() {
            let mut cs: Vec<char> = k.chars().collect();
            cs.pop();
            texts.push(cs.iter().collect());
            texts.push(format!("{}{}", k, k));
        }
        let mut queries: Vec<String> = case.queries.iter().map(|q| keys[ix(*q, keys.len())].clone()).collect();
        queries.push("zz".into());
        if let Some(k) = keys.last() {
            queries.push(format!("{}a", k));
        }
        self.check_dict(&mut rep, &case.dic, &dict, &texts, &queries);
        if case.dic.users.len() >= 2 {
            rep.class(">=2 user dictionaries");
        }
        rep
    }
    fn extra(&self, tier: Tier, seed: u64, ctx: &mut Ctx, stats: &mut Stats) -> Vec<(Value, Failure)> {
        let case = Case { dic: DicModel { matrix: Matrix { nl: 1, nr: 1, lines: vec![] }, system: vec![], users: vec![] }, texts: vec![], queries: vec![], big: Some((seed, tier.pick(12, 24))), huge: None };
        let rep = self.check(&case, ctx);
        stats.record(&format!("big:{}", seed), rep.failure.is_none(), Some("big-dictionary"));
        stats.extra.insert("big_dictionary".into(), json!("all 1884 keys of length 1-3 over 12 symbols with 1..=12 (thorough 24) homographs each (> 10,000 ids, word-id table > 65,535 bytes), 40 texts, every offset"));
        let mut fails = match rep.failure {
            Some(f) => vec![(serde_json::to_value(&case).unwrap(), f)],
            None => vec![],
        };
        // a trie beyond 2^21 units: yada stores relative offsets >= 2^21 in the extended form,
        // which only dictionaries of real size (an 8 MiB trie) contain
        let case = Case { dic: DicModel { matrix: Matrix { nl: 1, nr: 1, lines: vec![] }, system: vec![], users: vec![] }, texts: vec![], queries: vec![], big: None, huge: Some(seed) };
        let rep = self.check(&case, ctx);
        stats.record(&format!("huge:{}", seed), rep.failure.is_none(), Some("huge-trie"));
        stats.extra.insert("huge_trie".into(), json!("1,296 keys of 1,800 bytes plus 185 of their 900-byte prefixes (double array > 2^21 units): every key looked up at offset 0 and 40 keys at every offset against a hash-map model"));
        if let Some(f) = rep.failure {
            fails.push((serde_json::to_value(&case).unwrap(), f));
        }
        fails
    }
}

fn check_huge(rep: &mut Report, seed: u64, ctx: &mut Ctx) {
    use std::collections::HashMap;
    let pos = pos_from_str(POS_NOUN);
    let digits: Vec<char> = "abcdefghijklmnopqrstuvwxyz0123456789".chars().collect();
    let mut x = splitmix(seed ^ 0x4C04);
    let mut system: Vec<Entry> = Vec::new();
    for a in &digits {
        for b in &digits {
            let mut k = String::with_capacity(1800);
            k.push(*a);
            k.push(*b);
            while k.len() < 1800 {
                x = splitmix(x);
                let mut y = x;
                for _ in 0..12 {
                    k.push(digits[(y % 26) as usize]);
                    y /= 26;
                }
            }
            k.truncate(1800);
            system.push(Entry::simple(&k, 0, 0, 100, &pos));
        }
    }
    let n = system.len();
    for i in (0..n).step_by(7) {
        let k = system[i].key[..900].to_string();
        system.push(Entry::simple(&k, 0, 0, 90, &pos));
    }
    let dic = DicModel { matrix: Matrix { nl: 1, nr: 1, lines: vec![] }, system, users: vec![] };
    let cfg = CfgModel::minimal(&pos);
    let dict = match build_world(&dic, &cfg, ctx) {
        Ok((d, _)) => d,
        Err(e) => {
            rep.fail("huge-dictionary-build", e.describe());
            return;
        }
    };
    let mut by_key: HashMap<&[u8], Vec<u32>> = HashMap::new();
    for (i, e) in dic.system.iter().enumerate() {
        by_key.entry(e.key.as_bytes()).or_default().push(i as u32);
    }
    let lex = dict.lexicon();
    let lookup_at = |rep: &mut Report, bytes: &[u8], off: usize| -> bool {
        let mut got: Vec<(u32, usize)> = lex.lookup(bytes, off).map(|e| (e.word_id.word(), e.end)).collect();
        got.sort();
        let mut want: Vec<(u32, usize)> = Vec::new();
        for l in [900usize, 1800] {
            if off + l <= bytes.len() {
                if let Some(ids) = by_key.get(&bytes[off..off + l]) {
                    want.extend(ids.iter().map(|i| (*i, off + l)));
                }
            }
        }
        want.sort();
        if got != want {
            rep.fail("lookup-set", format!("huge dictionary, key starting {:?} offset {}: reported (word,end) {:?}, expected {:?}", String::from_utf8_lossy(&bytes[..8]), off, got, want));
            return false;
        }
        true
    };
    for i in 0..n {
        let mut t = dic.system[i].key.clone();
        t.push('x');
        if !lookup_at(rep, t.as_bytes(), 0) {
            return;
        }
    }
    for i in (0..n).step_by(n / 40) {
        let t = format!("{}{}", &dic.system[i].key[1700..], dic.system[(i + 7) % n].key);
        for off in 0..t.len() {
            if !lookup_at(rep, t.as_bytes(), off) {
                return;
            }
        }
    }
    rep.nontrivial = true;
    rep.class("huge-trie");
}

fn big_dictionary(seed: u64, maxh: u8) -> (DicModel, Vec<String>, Vec<String>) {
    let alpha = &ALPHA[..12];
    let mut keys: Vec<String> = Vec::new();
    for a in alpha {
        keys.push(a.to_string());
        for b in alpha {
            keys.push(format!("{}{}", a, b));
            for c in alpha {
                keys.push(format!("{}{}{}", a, b, c));
            }
        }
    }
    let pos = pos_from_str(POS_NOUN);
    let mut system = Vec::new();
    let mut x = splitmix(seed ^ 0xC04);
    for k in &keys {
        x = splitmix(x);
        let n = 1 + (x % maxh as u64) as usize;
        for j in 0..n {
            let mut e = Entry::simple(k, 0, 0, j as i16, &pos);
            if (x >> 8) % 9 == 0 && j == 0 {
                e.left = -1;
            }
            system.push(e);
        }
    }
    let mut texts = Vec::new();
    for _ in 0..40usize {
        x = splitmix(x);
        let mut t = String::new();
        for j in 0..6 {
            t.push_str(alpha[((x >> (j * 5)) % 12) as usize]);
        }
        texts.push(t);
    }
    let q = vec![keys[5].clone(), keys[700].clone(), "zzz".to_string()];
    (DicModel { matrix: Matrix { nl: 1, nr: 1, lines: vec![] }, system, users: vec![] }, texts, q)
}
