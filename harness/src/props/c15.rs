//! C15 — joined numerals are normalised to their decimal value.

use crate::common::*;
use crate::engine::*;
use crate::gen::to_fullwidth;
use crate::model::cfg::*;
use crate::model::dic::*;
use crate::model::numeral::*;
use proptest::collection::vec;
use proptest::prelude::*;
use proptest::sample::select;
use serde::{Deserialize, Serialize};
use serde_json::{json, Value};
use sudachi::analysis::Mode;
use unicode_normalization::UnicodeNormalization;

#[derive(Clone, Debug, Serialize, Deserialize)]
pub enum Mutation {
    /// replace the group after the first ',' by a group of n digits (n != 3)
    BadGroup(u8),
    LeadingSep(bool),
    TrailingSep(bool),
    DoubleSep(bool),
    /// insert a second point
    SecondPoint,
    /// append a large unit that is not smaller than the previous one / repeat the last unit
    UnitOrder(u8),
    /// put a large unit at the very beginning
    LeadingUnit(u8),
    /// arbitrary string over the numeral alphabet
    Noise(String),
}

#[derive(Clone, Debug, Serialize, Deserialize)]
pub struct Case {
    pub num: Num,
    pub prefix: String,
    pub suffix: String,
    pub fullwidth: bool,
    pub mutation: Option<Mutation>,
    /// an earlier, unrelated (possibly malformed) numeral run, closed by a neutral word, in the same text
    #[serde(default)]
    pub preamble: Option<String>,
    /// the optional `enableNormalize` key is left out of the plugin settings (its default is "enabled")
    #[serde(default)]
    pub omit_key: bool,
}

pub struct C15;

thread_local! {
    static DICT: std::cell::RefCell<[Option<std::rc::Rc<Dict>>; 2]> = std::cell::RefCell::new([None, None]);
}

const NEUTRAL: &[&str] = &["あ", "x", "は", "円"];
const KANJI_WORDS: &[&str] = &["四半期", "万人", "一般", "千葉", "十分"];

fn numeral_dict(ctx: &Ctx, omit_key: bool) -> std::rc::Rc<Dict> {
    DICT.with(|g| {
        let mut g = g.borrow_mut();
        let g = &mut g[omit_key as usize];
        if g.is_none() {
            let num = pos_from_str(POS_NUM);
            let noun = pos_from_str(POS_NOUN);
            let mut system = Vec::new();
            for c in "0123456789〇一二三四五六七八九十百千万億兆,.".chars() {
                system.push(Entry::simple(&c.to_string(), 0, 0, 100, &num));
            }
            for n in NEUTRAL {
                system.push(Entry::simple(n, 1, 1, 100, &noun));
            }
            // ordinary words that begin with a kanji numeral and go on with other kanji (the shipped char.def classes
            // the first character KANJINUMERIC KANJI, the rest KANJI): cheap enough to be chosen whenever they occur
            for n in KANJI_WORDS {
                system.push(Entry::simple(n, 1, 1, -3000, &noun));
            }
            // numeral words of two characters that declare their characters as split units: in modes A / B the joined
            // numeral must stay one token (the join happens on the C path, a joined token has no units)
            for w in ["二十", "百万"] {
                let mut e = Entry::simple(w, 0, 0, 150, &num);
                e.mode = 'C';
                let idx = |c: char| "0123456789〇一二三四五六七八九十百千万億兆,.".chars().position(|x| x == c).unwrap() as u32;
                e.split_a = w.chars().map(|c| WRef::Sys(idx(c))).collect();
                e.split_b = e.split_a.clone();
                system.push(e);
            }
            let dic = DicModel { matrix: Matrix { nl: 2, nr: 2, lines: vec![] }, system, users: vec![] };
            let cfg = CfgModel {
                chardef: FileSrc::Shipped,
                input: vec![InputPlugin::Default { rewrite: FileSrc::Shipped }],
                oov: vec![OovPlugin::Simple { pos: pos_from_str(POS_SYM), left: 1, right: 1, cost: 20000, user_pos: Some(true) }],
                inhibit: None,
                path: vec![PathPlugin::JoinNumeric { enable_normalize: if omit_key { None } else { Some(true) } }],
            };
            let (d, _) = build_world(&dic, &cfg, ctx).map_err(|e| e.describe()).expect("numeral dictionary");
            *g = Some(std::rc::Rc::new(d));
        }
        g.as_ref().unwrap().clone()
    })
}

fn digits(min: usize, max: usize) -> BoxedStrategy<Vec<u8>> {
    vec(0u8..10, min..=max).boxed()
}

/// digit strings whose length is drawn around 2^k up to 300 (counters and buffers of the numeral parser)
fn long_digits() -> BoxedStrategy<Vec<u8>> {
    crate::gen::boundary_len(300).prop_flat_map(|n| vec(0u8..10, n.max(1))).boxed()
}

fn nz_digits(min: usize, max: usize) -> BoxedStrategy<Vec<u8>> {
    (1u8..10, vec(0u8..10, min.saturating_sub(1)..=max.saturating_sub(1))).prop_map(|(a, mut v)| {
        v.insert(0, a);
        v
    })
    .boxed()
}

fn num() -> BoxedStrategy<Num> {
    let plain = (prop_oneof![12 => digits(1, 30), 1 => long_digits()], prop::option::weighted(0.3, prop_oneof![12 => digits(1, 8), 1 => long_digits()]), 0u8..3, any::<u32>()).prop_map(|(digits, frac, style, sel)| Num::Plain { digits, frac, style, sel });
    let comma = (
        prop_oneof![4 => nz_digits(1, 3), 1 => (vec(0u8..10, 0..=1), nz_digits(1, 2)).prop_map(|(mut z, v)| { z.iter_mut().for_each(|x| *x = 0); z.extend(v); z.truncate(3); z })],
        prop_oneof![15 => vec((0u8..10, 0u8..10, 0u8..10).prop_map(|(a, b, c)| [a, b, c]), 1..6), 1 => vec((0u8..10, 0u8..10, 0u8..10).prop_map(|(a, b, c)| [a, b, c]), 20..90)],
        prop::option::weighted(0.25, digits(1, 6)),
    )
        .prop_map(|(first, groups, frac)| Num::Comma { first, groups, frac });
    let section = prop_oneof![3 => (1u16..10000).prop_map(Section::Pos), 3 => ((1u16..10000), any::<bool>()).prop_map(|(v, o)| Section::Small(v, o)), 1 => (1000u16..10000).prop_map(Section::Grouped)];
    let units = (
        prop::sample::subsequence(vec![12u32, 8, 4, 0], 1..=4),
        vec(section, 4),
        prop::option::weighted(0.2, nz_digits(5, 25)),
        prop::option::weighted(0.2, digits(1, 5)),
        0u8..3,
        any::<u32>(),
    )
        .prop_map(|(units, secs, long, frac, style, sel)| {
            let mut units = units;
            if units == vec![0] {
                units = vec![4, 0];
            }
            let mut sections: Vec<(Section, u32)> = units.iter().cloned().zip(secs.into_iter()).map(|(u, s)| (s, u)).collect();
            if let Some(l) = long {
                sections[0].0 = Section::Long(l);
            }
            // a fraction only after a positional last section without unit
            let last_ok = matches!(sections.last(), Some((Section::Pos(_), 0)));
            let frac = if last_ok { frac } else { None };
            Num::Units { sections, frac, style, sel }
        });
    let frac_unit = (
        prop_oneof![6 => nz_digits(1, 3), 1 => Just(vec![0u8])],
        digits(1, 4),
        prop::option::of(1u32..=3),
        prop::option::of(select(vec![4u32, 8, 12])),
    )
        .prop_map(|(int, frac, small, large)| {
            let (small, large) = if small.is_none() && large.is_none() { (Some(3), None) } else { (small, large) };
            // zero times a unit ("0.0千") is a degenerate notation that is not judged
            let mut frac = frac;
            if int.iter().all(|d| *d == 0) && frac.iter().all(|d| *d == 0) {
                frac[0] = 5;
            }
            Num::FracUnit { int, frac, small, large }
        });
    let comma_unit = (
        nz_digits(1, 3),
        vec((0u8..10, 0u8..10, 0u8..10).prop_map(|(a, b, c)| [a, b, c]), 1..4),
        prop::option::of(1u32..=3),
        prop::option::of(select(vec![4u32, 8, 12])),
    )
        .prop_map(|(first, groups, small, large)| {
            let (small, large) = if small.is_none() && large.is_none() { (Some(3), None) } else { (small, large) };
            Num::CommaUnit { first, groups, small, large }
        });
    prop_oneof![3 => plain, 3 => comma, 5 => units, 2 => frac_unit, 1 => comma_unit].boxed()
}

fn mutation() -> BoxedStrategy<Mutation> {
    prop_oneof![
        2 => prop_oneof![Just(1u8), Just(2), Just(4), Just(5)].prop_map(Mutation::BadGroup),
        1 => any::<bool>().prop_map(Mutation::LeadingSep),
        1 => any::<bool>().prop_map(Mutation::TrailingSep),
        1 => any::<bool>().prop_map(Mutation::DoubleSep),
        1 => Just(Mutation::SecondPoint),
        2 => (0u8..3).prop_map(Mutation::UnitOrder),
        1 => (0u8..3).prop_map(Mutation::LeadingUnit),
        3 => "[0-9一二三十百千万億兆,.]{1,10}".prop_map(Mutation::Noise),
        // a unit followed by more digits than fit under it, with or without a trailing separator (十555, / 一万50000.)
        2 => "[1-9一二三]?[十百千万][1-9][0-9]{1,5}[,.]?".prop_map(Mutation::Noise),
    ]
    .boxed()
}

pub fn apply_mutation(s: &str, m: &Mutation) -> String {
    match m {
        Mutation::BadGroup(n) => match s.find(',') {
            Some(i) => {
                let rest: String = s[i + 1..].chars().skip_while(|c| c.is_ascii_digit()).collect();
                format!("{},{}{}", &s[..i], "7".repeat(*n as usize), rest)
            }
            None => format!("{},{}", s, "7".repeat(*n as usize)),
        },
        Mutation::LeadingSep(p) => format!("{}{}", if *p { "." } else { "," }, s),
        Mutation::TrailingSep(p) => format!("{}{}", s, if *p { "." } else { "," }),
        Mutation::DoubleSep(p) => {
            let sep = if *p { '.' } else { ',' };
            match s.find(sep) {
                Some(i) => format!("{}{}{}", &s[..i], sep, &s[i..]),
                None => format!("{}{}{}5", s, sep, sep),
            }
        }
        Mutation::SecondPoint => match s.find('.') {
            Some(_) => format!("{}.5", s),
            None => format!("{}.5.5", s),
        },
        Mutation::UnitOrder(k) => {
            let units = ['万', '億', '兆'];
            match s.chars().rev().find(|c| large_unit(*c).is_some()) {
                Some(c) => {
                    // append a section with the same or a bigger unit
                    let idx = units.iter().position(|u| *u == c).unwrap();
                    let u = units[(idx + (*k as usize % 2)).min(2)];
                    format!("{}3{}", s, u)
                }
                None => format!("{}万3億", s),
            }
        }
        Mutation::LeadingUnit(k) => format!("{}{}", ['万', '億', '兆'][*k as usize % 3], s),
        Mutation::Noise(n) => n.clone(),
    }
}

impl Property for C15 {
    type Case = Case;
    fn id(&self) -> &'static str {
        "C15"
    }
    fn rule(&self) -> &'static str {
        "case = a numeral generated from a structure (plain digit strings up to 30 digits with leading zeros, Arabic / kanji / mixed digits, optional fraction; \
         thousands separators with optional fraction; unit notation with strictly descending 兆 億 万 sections written positionally or with 千 百 十, an arbitrarily \
         long highest section, optional fraction after a positional last section; fraction x unit) together with the decimal rendering of its value, embedded between \
         neutral words, optionally written with full-width digits and separators; or a near miss produced by a named mutation (wrong group width, leading / trailing / \
         double separator, second point, units out of order or repeated, leading large unit, noise over the numeral alphabet). Dictionary: every numeral character, \
         ',' and '.' as one-character 名詞,数詞 entries; numeral normalisation on. Oracle (well formed): exactly one token covers the numeral and its normalised \
         form is the expected decimal string. Oracle (near miss): a joined token whose surface is definitely malformed (by a conservative classifier) is a violation; a \
         token whose surface is a simple well-formed numeral must carry its value. Non-trivial: value >= 10 with >= 2 notation features; every mutated case."
    }
    fn assumptions(&self) -> Vec<&'static str> {
        vec![
            "the well-formed generator is a subset of the notations the statement names; strings outside both the generator and the malformation rules are not judged",
            "fixed findings F11 / F20 / F20b are kept as corpus cases",
        ]
    }
    fn strategy(&self, _tier: Tier) -> BoxedStrategy<Case> {
        let pre = prop_oneof![
            3 => select(vec!["3.", "1,", "2千", "12", ".5", "千", "1,23", "5.5.", "万", "一.", "3,000,"]).prop_map(|s| s.to_string()),
            1 => "[0-9一二三十百千万億,.]{1,6}",
        ];
        (num(), select(vec!["", "あ", "x", "は"]), select(vec!["", "", "あ", "あ", "円", "円", "x", "x", "四半期", "万人", "一般", "千葉", "十分"]), prop::bool::weighted(0.2), prop::option::weighted(0.35, mutation()), prop::option::weighted(0.3, (pre, select(vec!["は", "あ", "x", "円"]))), prop::bool::weighted(0.25))
            .prop_map(|(num, prefix, suffix, fullwidth, mutation, preamble, omit_key)| Case { num, prefix: prefix.to_string(), suffix: suffix.to_string(), fullwidth, mutation, preamble: preamble.map(|(a, b)| format!("{}{}", a, b)), omit_key })
            .boxed()
    }
    fn cases_per_shard(&self, tier: Tier) -> u32 {
        tier.pick(20000, 400000)
    }
    fn extra(&self, tier: Tier, _seed: u64, ctx: &mut Ctx, stats: &mut Stats) -> Vec<(Value, Failure)> {
        // numerals of thousands of digits (the input limit admits 49,149): integer parts on both sides of
        // 2^8, 2^12, 2^14, 2^15, with and without a fraction, plain and comma-grouped
        let lens: Vec<usize> = match tier {
            Tier::Quick => vec![255, 256, 257, 4096, 16_384, 32_766, 32_767, 32_768, 32_769, 40_000],
            Tier::Thorough => vec![127, 128, 129, 255, 256, 257, 1023, 1024, 4095, 4096, 4097, 16_383, 16_384, 16_385, 32_766, 32_767, 32_768, 32_769, 32_770, 40_000, 49_000],
        };
        let mut fam: Vec<(String, Case)> = Vec::new();
        for n in lens {
            let digits: Vec<u8> = (0..n).map(|i| ((i * 7 + 3) % 10) as u8).collect();
            for frac in [None, Some(vec![5u8]), Some(vec![0u8, 2, 5])] {
                let name = format!("{} digits{}", n, if frac.is_some() { " + fraction" } else { "" });
                fam.push((name, Case { num: Num::Plain { digits: digits.clone(), frac: frac.clone(), style: 0, sel: 0 }, prefix: "あ".into(), suffix: "円".into(), fullwidth: false, mutation: None, preamble: None, omit_key: false }));
            }
            if n <= 30_000 {
                let groups: Vec<[u8; 3]> = (0..n / 3).map(|i| [(i % 10) as u8, ((i / 10) % 10) as u8, 7]).collect();
                fam.push((format!("{} comma groups", n / 3), Case { num: Num::Comma { first: vec![1, 2], groups, frac: Some(vec![2, 5]) }, prefix: String::new(), suffix: "x".into(), fullwidth: false, mutation: None, preamble: None, omit_key: false }));
            }
        }
        run_family(self, ctx, stats, "long-numerals", fam)
    }
    fn sample(&self, case: &Case) -> Value {
        let (s, e) = case.num.render();
        let shown = match &case.mutation {
            Some(m) => apply_mutation(&s, m),
            None => s.clone(),
        };
        json!({"text": format!("{}{}{}{}", case.preamble.clone().unwrap_or_default(), case.prefix, if case.fullwidth { to_fullwidth(&shown) } else { shown }, case.suffix), "expected_if_well_formed": e, "mutation": case.mutation})
    }
    fn check(&self, case: &Case, ctx: &mut Ctx) -> Report {
        let mut rep = Report::default();
        let dict = numeral_dict(ctx, case.omit_key);
        let (notation, expected) = case.num.render();
        let numeral = match &case.mutation {
            Some(m) => apply_mutation(&notation, m),
            None => notation.clone(),
        };
        let shown = if case.fullwidth { to_fullwidth(&numeral) } else { numeral.clone() };
        let lead = format!("{}{}", case.preamble.clone().unwrap_or_default(), case.prefix);
        let text = format!("{}{}{}", lead, shown, case.suffix);
        if case.preamble.is_some() {
            rep.class("earlier numeral run in the same text");
        }
        if KANJI_WORDS.contains(&case.suffix.as_str()) {
            rep.class("followed by a word that begins with a kanji numeral");
        }
        // the mode is drawn from the case (text length): the joined numeral is the same token in every mode
        // (a numeral that IS one of the two-character dictionary words is a single word with declared units, which
        // modes A / B split by design: mode C then)
        let whole_word = ["二十", "百万"].contains(&numeral.as_str()) || case.preamble.as_deref().map(|p| p.contains("二十") || p.contains("百万")).unwrap_or(false);
        let mode = if whole_word { Mode::C } else { [Mode::C, Mode::C, Mode::A, Mode::B][text.len() % 4] };
        let ml = match analyze(&dict, &text, mode, None) {
            Ok(m) => m,
            Err(e) => {
                rep.fail("analysis-error", format!("text {:?}: {}", text, e));
                return rep;
            }
        };
        // the preamble ends with a neutral word, so the judged numeral is its own run; if the prefix is
        // empty the neutral word of the preamble separates them
        let (start, end) = (lead.len(), lead.len() + shown.len());
        if case.mutation.is_none() {
            if case.num.is_f11_class() {
                rep.class("fraction with integer part 0 times a unit");
            }
            // exactly one token covers the numeral
            let inside: Vec<_> = ml.iter().filter(|m| m.begin() < end && m.end() > start).collect();
            if inside.len() != 1 || inside[0].begin() != start || inside[0].end() != end {
                rep.fail(
                    "not-joined",
                    format!("text {:?}: the numeral {:?} (value {}) is covered by tokens {:?}", text, shown, expected, inside.iter().map(|m| (m.surface().to_string(), m.normalized_form().to_string())).collect::<Vec<_>>()),
                );
                return rep;
            }
            let got = inside[0].normalized_form();
            if got != expected {
                rep.fail("wrong-value", format!("text {:?}: the numeral {:?} is normalised to {:?}, its decimal rendering is {:?}", text, shown, got, expected));
                return rep;
            }
            let features = [numeral.contains(','), numeral.contains('.'), numeral.chars().any(|c| small_unit(c).is_some()), numeral.chars().any(|c| large_unit(c).is_some()), numeral.chars().any(|c| KANJI_DIGITS.contains(&c))];
            if features.iter().filter(|x| **x).count() >= 2 && expected.trim_start_matches('0').len() >= 2 {
                rep.nontrivial = true;
            }
            match &case.num {
                Num::Plain { .. } => rep.class("plain"),
                Num::Comma { .. } => rep.class("separators"),
                Num::Units { .. } => rep.class("units"),
                Num::FracUnit { .. } => rep.class("fraction x unit"),
                Num::CommaUnit { .. } => rep.class("separators x unit"),
            }
        } else {
            rep.nontrivial = true;
            rep.class("near miss");
            for m in ml.iter() {
                if m.begin() < start || m.end() > end {
                    continue;
                }
                let surf: String = m.surface().nfkc().collect();
                if surf.is_empty() || !surf.chars().all(is_numeral_char) {
                    continue;
                }
                let joined = surf.chars().count() >= 2;
                match classify(&surf) {
                    Class::Malformed(why) => {
                        if joined {
                            rep.fail("joined-malformed", format!("text {:?}: the malformed piece {:?} ({}) was joined into one token with normalised form {:?}", text, surf, why, m.normalized_form()));
                            return rep;
                        }
                    }
                    Class::Well(v) => {
                        // a piece that was not joined keeps its dictionary normalised form (or is normalised on its own)
                        let own: String = m.surface().nfkc().collect();
                        if m.normalized_form() != v && !(!joined && m.normalized_form() == own) {
                            rep.fail("piece-wrong-value", format!("text {:?}: the piece {:?} is normalised to {:?}, its value is {:?}", text, surf, m.normalized_form(), v));
                            return rep;
                        }
                        if joined {
                            rep.class("near miss: well-formed piece joined");
                        }
                    }
                    Class::Unknown => {}
                }
            }
        }
        rep
    }
}

pub fn fixtures() -> Vec<(&'static str, Case, &'static str)> {
    vec![(
        "f20-comma-before-unit.json",
        Case { num: Num::Plain { digits: vec![1], frac: None, style: 0, sel: 0 }, prefix: "".into(), suffix: "".into(), fullwidth: false, mutation: Some(Mutation::Noise("二,兆".into())), preamble: None, omit_key: false },
        "F20: a thousands separator directly followed by a unit (二,兆) is accepted and the piece is joined as 2000000000000",
    ), (
        "f11-zero-fraction-times-unit.json",
        Case { num: Num::FracUnit { int: vec![0], frac: vec![5], small: Some(3), large: None }, prefix: "".into(), suffix: "".into(), fullwidth: false, mutation: None, preamble: None, omit_key: false },
        "F11: 0.5千 is joined and normalised to 0500 instead of 500",
    )]
}
