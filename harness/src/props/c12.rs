//! C12 — layered user dictionaries keep ids, parts of speech and references straight.

use crate::common::*;
use crate::engine::*;
use crate::gen::*;
use crate::model::cfg::*;
use crate::model::dic::*;
use proptest::collection::vec;
use proptest::prelude::*;
use serde::{Deserialize, Serialize};
use serde_json::{json, Value};
use std::collections::BTreeSet;
use sudachi::analysis::stateless_tokenizer::DictionaryAccess;
use sudachi::dic::word_id::WordId;

#[derive(Clone, Debug, Serialize, Deserialize)]
pub struct Case {
    pub dic: DicModel,
    pub cfg: CfgModel,
    pub texts: Vec<Vec<Piece>>,
    /// compile the user dictionaries the way `sudachi ubuild` does: against the LOADED system dictionary (with the
    /// configured plugins set up, which may have registered parts of speech) instead of the bare system file
    #[serde(default)]
    pub ubuild: bool,
    /// this user dictionary (index) is stored in the previous file format (user dictionary, revision 2: own parts of
    /// speech, no synonym group ids), which the loader still accepts; its entries carry no synonym groups
    #[serde(default)]
    pub legacy: Option<usize>,
}

pub struct C12;

fn word_obs(dict: &Dict, id: WordId) -> String {
    let lex = dict.lexicon();
    match lex.get_word_info(id) {
        Ok(wi) => format!(
            "{}|{}|{:?}|{}|{}|{}|{}|{:?}|{:?}|{:?}|{:?}|{:?}",
            wi.surface(),
            wi.head_word_length(),
            dict.grammar().pos_list.get(wi.pos_id() as usize),
            wi.normalized_form(),
            wi.dictionary_form_word_id(),
            wi.dictionary_form(),
            wi.reading_form(),
            wi.a_unit_split(),
            wi.b_unit_split(),
            wi.word_structure(),
            wi.synonym_group_ids(),
            lex.get_word_param(id)
        ),
        Err(e) => format!("ERR {}", e),
    }
}

impl Property for C12 {
    type Case = Case;
    fn id(&self) -> &'static str {
        "C12"
    }
    fn rule(&self) -> &'static str {
        "case = generated system lexicon + 0-15 user lexicons (own POS rows overlapping with the system's, each other's and with POS that OOV plugins register with \
         userPOS=allow before the user dictionaries are merged; splits written as U-numbers, plain numbers and inline references), an OOV provider stack, no input-text \
         plugin, 1-4 texts of keys of all dictionaries. Oracle: a 15th user dictionary is refused with an error; otherwise every morpheme's dictionary id / word number \
         name a model row whose key is the surface, its part_of_speech() equals that row's six strings (OOV: -1, is_oov, the configured POS), splits of user words name \
         the model-resolved rows of the same user dictionary or the system one, every POS declared anywhere is retrievable from the grammar, and every observation on \
         every system word is identical with and without the user dictionaries. Non-trivial: >= 2 user dictionaries with own POS and a result mixing >= 2 dictionaries."
    }
    fn strategy(&self, tier: Tier) -> BoxedStrategy<Case> {
        let mut dp = DicParams::small();
        dp.max_base = tier.pick(6, 12);
        dp.max_user_entries = 4;
        dp.auto_cost = true;
        let mut cp = CfgParams::full();
        cp.input_plugins = false;
        cp.path_rewrite = false;
        cp.inhibit = false;
        let users = prop_oneof![6 => 0usize..=4, 2 => 5usize..=13, 2 => Just(14usize), 1 => Just(15usize)];
        users
            .prop_flat_map(move |nu| {
                let mut d = dp.clone();
                d.max_users = nu;
                d.min_users = nu;
                (world(d, cp.clone()), vec(pieces_long(10), 1..=4))
            })
            
            .prop_flat_map(|x| (Just(x), prop::bool::weighted(0.3), prop::option::weighted(0.12, any::<u16>()), prop::option::weighted(0.15, any::<u16>())))
            .prop_map(|(((mut dic, cfg), texts), ubuild, dup, legacy)| {
                // the same user dictionary listed twice in a row: two layers with their own numbers
                if let Some(k) = dup {
                    if !dic.users.is_empty() && dic.users.len() < 14 {
                        let i = ix(k, dic.users.len());
                        let copy = dic.users[i].clone();
                        dic.users.insert(i + 1, copy);
                    }
                }
                let legacy = match legacy {
                    Some(k) if !dic.users.is_empty() => {
                        let i = ix(k, dic.users.len());
                        for e in dic.users[i].iter_mut() {
                            e.synonyms.clear();
                        }
                        Some(i)
                    }
                    _ => None,
                };
                Case { dic, cfg, texts, ubuild, legacy }
            })
            .boxed()
    }
    fn cases_per_shard(&self, tier: Tier) -> u32 {
        tier.pick(2000, 40000)
    }
    fn sample(&self, case: &Case) -> Value {
        let keys = all_keys(&case.dic);
        json!({
            "texts": case.texts.iter().map(|t| render_pieces(&keys, t)).collect::<Vec<_>>(),
            "system_csv": render_csv(&case.dic.system),
            "user_csvs": case.dic.users.iter().map(|u| render_csv(u)).collect::<Vec<_>>(),
            "oov": case.cfg.oov,
        })
    }
    fn check(&self, case: &Case, ctx: &mut Ctx) -> Report {
        let mut rep = Report::default();
        let dic = &case.dic;
        let compiled = match guarded(|| compile_model(dic)) {
            Ok(Ok(c)) => c,
            _ => {
                rep.class("rejected");
                return rep;
            }
        };
        let config = match build_config(&case.cfg, ctx) {
            Ok(c) => c,
            Err(_) => {
                rep.class("rejected");
                return rep;
            }
        };
        let mut compiled = compiled;
        if case.ubuild && !dic.users.is_empty() && dic.users.len() < 15 {
            let rebuilt = guarded(|| -> Result<Vec<Vec<u8>>, String> {
                let base = load(&Compiled { system: compiled.system.clone(), users: vec![] }, &config).map_err(|e| format!("base: {}", e))?;
                let mut out = Vec::new();
                for u in &dic.users {
                    let mut b = sudachi::dic::build::DictBuilder::new_user(&base);
                    b.set_compile_time(fixed_time());
                    b.read_lexicon(render_csv(u).as_bytes()).map_err(|e| format!("read_lexicon: {}", e))?;
                    b.resolve().map_err(|e| format!("resolve: {}", e))?;
                    let mut bytes = Vec::new();
                    b.compile(&mut bytes).map_err(|e| format!("compile: {}", e))?;
                    out.push(bytes);
                }
                Ok(out)
            });
            match rebuilt {
                Ok(Ok(users)) => {
                    compiled.users = users;
                    rep.class("user dictionaries built against the loaded dictionary");
                }
                Ok(Err(_)) => {
                    rep.class("rejected");
                    return rep;
                }
                Err(p) => {
                    rep.fail(&format!("ubuild-panic:{}", panic_site(&p)), p);
                    return rep;
                }
            }
        }
        if let Some(i) = case.legacy.filter(|i| *i < compiled.users.len()) {
            // revision 2 of the user dictionary format differs from revision 3 by the synonym group ids at the end of
            // each entry (none here, and entries are reached through the offset table): the same bytes under the older magic
            compiled.users[i][..8].copy_from_slice(&0x9fdeb5a90168d868u64.to_le_bytes());
            rep.class("a user dictionary in the previous file format");
        }
        let loaded = guarded(|| load(&compiled, &config));
        if dic.users.len() >= 15 {
            match loaded {
                Ok(Err(_)) => {
                    rep.class("15th user dictionary refused");
                    rep.nontrivial = true;
                }
                Ok(Ok(_)) => rep.fail("fifteenth-accepted", "15 user dictionaries were accepted".to_string()),
                Err(p) => rep.fail(&format!("fifteenth-panic:{}", panic_site(&p)), p),
            }
            return rep;
        }
        let dict = match loaded {
            Ok(Ok(d)) => d,
            Ok(Err(e)) => {
                if std::env::var("VERIF_DEBUG").is_ok() {
                    eprintln!("REJECT {}", e);
                }
                rep.class("rejected");
                return rep;
            }
            Err(p) => {
                rep.fail(&format!("load-panic:{}", panic_site(&p)), p);
                return rep;
            }
        };
        let g = dict.grammar();
        let lex = dict.lexicon();
        // every declared POS is retrievable
        let mut all_pos: BTreeSet<Pos> = BTreeSet::new();
        for d in 0..dic.num_dics() {
            for e in dic.dic(d) {
                all_pos.insert(e.pos.clone());
            }
        }
        for p in &all_pos {
            match g.get_part_of_speech_id(p) {
                Some(id) if g.pos_list[id as usize] == p.to_vec() => {}
                other => {
                    rep.fail("pos-retrievable", format!("POS {:?} declared in a dictionary: grammar lookup gives {:?}", p, other));
                    return rep;
                }
            }
        }
        // word-level: POS strings and references of every row of every dictionary
        let mut user_pos_dicts = 0;
        for d in 0..dic.num_dics() {
            let mut own_pos = false;
            for (n, e) in dic.dic(d).iter().enumerate() {
                let id = WordId::new(d as u8, n as u32);
                let wi = match lex.get_word_info(id) {
                    Ok(w) => w,
                    Err(er) => {
                        rep.fail("word-info", format!("{:?}: {}", id, er));
                        return rep;
                    }
                };
                let pos = g.pos_list.get(wi.pos_id() as usize).cloned().unwrap_or_default();
                if pos != e.pos.to_vec() {
                    rep.fail("row-pos", format!("dictionary {} row {} (key {:?}): POS id {} = {:?} but the CSV says {:?} (pos_list has {} entries)", d, n, e.key, wi.pos_id(), pos, e.pos, g.pos_list.len()));
                    return rep;
                }
                if d > 0 && !SYS_POS.iter().any(|p| pos_from_str(p) == e.pos) {
                    own_pos = true;
                }
                for (name, got, refs) in [("split-a", wi.a_unit_split(), &e.split_a), ("split-b", wi.b_unit_split(), &e.split_b), ("word-structure", wi.word_structure(), &e.word_structure)] {
                    let want: Vec<WordId> = refs.iter().filter_map(|r| dic.resolve(d, r)).map(|(dd, nn)| WordId::new(dd as u8, nn)).collect();
                    if got != want.as_slice() {
                        rep.fail(&format!("row-{}", name), format!("dictionary {} row {} (key {:?}): {} = {:?}, declared {:?}", d, n, e.key, name, got, want));
                        return rep;
                    }
                    for w in got {
                        if w.dic() as usize != d && w.dic() != 0 {
                            rep.fail("foreign-reference", format!("dictionary {} row {}: reference {:?} leaves the dictionary", d, n, w));
                            return rep;
                        }
                    }
                }
                // the same references when only one of the three reference fields (plus the POS) is requested
                if d > 0 && !(e.split_a.is_empty() && e.split_b.is_empty() && e.word_structure.is_empty()) {
                    use sudachi::dic::subset::InfoSubset;
                    for (name, field) in [("split-a", InfoSubset::SPLIT_A), ("split-b", InfoSubset::SPLIT_B), ("word-structure", InfoSubset::WORD_STRUCTURE)] {
                        let w1 = match lex.get_word_info_subset(id, field | InfoSubset::POS_ID) {
                            Ok(w) => w,
                            Err(er) => {
                                rep.fail("word-info-subset", format!("{:?} with only {}: {}", id, name, er));
                                return rep;
                            }
                        };
                        let (got1, full) = match name {
                            "split-a" => (w1.a_unit_split(), wi.a_unit_split()),
                            "split-b" => (w1.b_unit_split(), wi.b_unit_split()),
                            _ => (w1.word_structure(), wi.word_structure()),
                        };
                        if got1 != full {
                            rep.fail(&format!("row-{}-subset", name), format!("dictionary {} row {} (key {:?}): {} = {:?} when requested alone, {:?} when everything is loaded", d, n, e.key, name, got1, full));
                            return rep;
                        }
                    }
                }
            }
            if own_pos {
                user_pos_dicts += 1;
            }
        }
        // system words unaffected by user dictionaries
        if !dic.users.is_empty() {
            let bare = Compiled { system: compiled.system.clone(), users: vec![] };
            if let Ok(Ok(d0)) = guarded(|| load(&bare, &config)) {
                for n in 0..dic.system.len() {
                    let id = WordId::new(0, n as u32);
                    let (a, b) = (word_obs(&dict, id), word_obs(&d0, id));
                    if a != b {
                        rep.fail("system-word-affected", format!("system word {} (key {:?}): {} with user dictionaries, {} without", n, dic.system[n].key, a, b));
                        return rep;
                    }
                }
            }
        }
        // morpheme level
        let keys = all_keys(dic);
        let oov_pos: Vec<Vec<String>> = {
            let mut v = Vec::new();
            for p in &case.cfg.oov {
                match p {
                    OovPlugin::Simple { pos, .. } | OovPlugin::Regex { pos, .. } => v.push(pos.to_vec()),
                    OovPlugin::Mecab { unkdef, .. } => {
                        for l in read_src("unk.def", unkdef).lines() {
                            let c: Vec<&str> = l.split(',').collect();
                            if c.len() >= 10 {
                                v.push(c[4..10].iter().map(|s| s.to_string()).collect());
                            }
                        }
                    }
                }
            }
            v
        };
        for t in &case.texts {
            let text = render_pieces(&keys, t);
            if f7_guard(&mut rep, &case.dic, &case.cfg, &text, ctx.strict) {
                continue;
            }
            for mode in MODES {
                let ml = match analyze(&dict, &text, mode, None) {
                    Ok(m) => m,
                    Err(_) => continue,
                };
                let mut dics_seen = BTreeSet::new();
                for m in ml.iter() {
                    let w = m.word_id();
                    let did = m.dictionary_id();
                    if w.is_oov() {
                        if did != -1 || !m.is_oov() {
                            rep.fail("oov-id", format!("text {:?}: OOV morpheme reports dictionary {} / is_oov {}", text, did, m.is_oov()));
                            return rep;
                        }
                        if !oov_pos.contains(&m.part_of_speech().to_vec()) {
                            rep.fail("oov-pos", format!("text {:?}: OOV morpheme {:?} has POS {:?}, configured {:?}", text, &*m.surface(), m.part_of_speech(), oov_pos));
                            return rep;
                        }
                        continue;
                    }
                    if m.is_oov() || did < 0 || did as usize >= dic.num_dics() || w.word() as usize >= dic.dic(did as usize).len() {
                        rep.fail("dictionary-id", format!("text {:?}: morpheme {:?} reports dictionary {} word {}", text, &*m.surface(), did, w.word()));
                        return rep;
                    }
                    let e = &dic.dic(did as usize)[w.word() as usize];
                    if e.key != *m.surface() {
                        rep.fail("dictionary-id-key", format!("text {:?}: morpheme {:?} reports dictionary {} word {} whose key is {:?}", text, &*m.surface(), did, w.word(), e.key));
                        return rep;
                    }
                    if m.part_of_speech() != e.pos.to_vec().as_slice() {
                        rep.fail("morpheme-pos", format!("text {:?}: morpheme {:?} (dictionary {} word {}) has POS {:?}, declared {:?}", text, &*m.surface(), did, w.word(), m.part_of_speech(), e.pos));
                        return rep;
                    }
                    dics_seen.insert(did);
                }
                if dics_seen.len() >= 2 && user_pos_dicts >= 2 {
                    rep.nontrivial = true;
                }
                if dics_seen.len() >= 2 {
                    rep.class("result mixes dictionaries");
                }
            }
        }
        if dic.users.len() == 14 {
            rep.class("14 user dictionaries");
        }
        if user_pos_dicts >= 2 {
            rep.class(">= 2 user dictionaries with own POS");
        }
        rep
    }
}

/// reproducers of recorded findings (written by `vcheck fixtures`)
pub fn fixtures() -> Vec<(&'static str, Case, &'static str)> {
    let noun = pos_from_str(POS_NOUN);
    let dic = DicModel {
        matrix: Matrix { nl: 1, nr: 1, lines: vec![] },
        system: vec![Entry::simple("a", 0, 0, 100, &noun)],
        users: vec![vec![Entry::simple("u", 0, 0, 100, &pos_from_str(POS_USER1)), Entry::simple("v", 0, 0, 100, &pos_from_str(POS_USER2))]],
    };
    let cfg = CfgModel {
        chardef: FileSrc::Shipped,
        input: vec![],
        oov: vec![OovPlugin::Simple { pos: pos_from_str(POS_PLUGIN), left: 0, right: 0, cost: 30000, user_pos: Some(true) }],
        inhibit: None,
        path: vec![],
    };
    vec![(
        "f22-user-dictionary-built-against-loaded-dictionary.json",
        Case { dic, cfg, texts: vec![vec![Piece::Raw("uva".into())]], ubuild: true, legacy: None },
        "F22: a user dictionary compiled with DictBuilder::new_user(&loaded dictionary) (the `ubuild` flow) inherits the parts of speech that OOV plugins registered with userPOS=allow as if they were system parts of speech; when the stack is loaded its own parts of speech are shifted by that number (u reports the POS declared for v, v's POS id is out of range)",
    )]
}
