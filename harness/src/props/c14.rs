//! C14 — path-rewrite plugins only merge adjacent tokens and preserve the text.

use crate::common::*;
use crate::engine::*;
use crate::gen::*;
use crate::model::cfg::*;
use crate::model::dic::*;
use proptest::collection::vec;
use proptest::prelude::*;
use proptest::sample::select;
use serde::{Deserialize, Serialize};
use serde_json::{json, Value};
use std::collections::BTreeSet;
use sudachi::analysis::Mode;

#[derive(Clone, Debug, Serialize, Deserialize)]
pub struct Case {
    pub dic: DicModel,
    pub cfg: CfgModel,
    pub texts: Vec<Vec<Piece>>,
}

pub struct C14;

#[derive(Clone, Debug, PartialEq)]
struct Tok {
    b: usize,
    e: usize,
    wid: u32,
    pos: Vec<String>,
    surface: String,
    reading: String,
    dform: String,
    norm: String,
    oov: bool,
}

fn toks(ml: &MList) -> Vec<Tok> {
    ml.iter()
        .map(|m| Tok {
            b: m.begin(),
            e: m.end(),
            wid: m.word_id().as_raw(),
            pos: m.part_of_speech().to_vec(),
            surface: m.get_word_info().surface().to_string(),
            reading: m.reading_form().to_string(),
            dform: m.dictionary_form().to_string(),
            norm: m.normalized_form().to_string(),
            oov: m.is_oov(),
        })
        .collect()
}

fn text_piece() -> BoxedStrategy<Piece> {
    prop_oneof![
        6 => any::<u16>().prop_map(Piece::Key),
        5 => "[0-9０-９一二三十百千万億,.，．]{1,8}".prop_map(Piece::Num),
        5 => vec(select(vec!['ア', 'イ', 'カ', 'ー', 'ッ', 'ァ', 'ヽ', 'ン', 'ｱ']), 1..6).prop_map(|v| Piece::Raw(v.into_iter().collect())),
        3 => select(vec!['あ', 'a', ' ', '京', '。', '-', 'ー']).prop_map(Piece::Ch),
        1 => pool_char().prop_map(Piece::Ch),
        // runs of 2^k-1 / 2^k / 2^k+1 digits, numeral characters or katakana: joins of hundreds of tokens
        1 => (select(vec!["1", "0", "９", "一", "千", "1,", "ア", "ー", "カッ", "ｱ"]), crate::gen::boundary_len(600)).prop_map(|(u, n)| Piece::Rep(u.to_string(), n as u32)),
    ]
    .boxed()
}

impl Property for C14 {
    type Case = Case;
    fn id(&self) -> &'static str {
        "C14"
    }
    fn rule(&self) -> &'static str {
        "case = a generated lexicon over numerals (tagged 名詞,数詞 or with other POS), ',' '.', katakana words of 1-3 characters and neutral words, a configuration with \
         numeral joining (enableNormalize on/off/default) and/or katakana-OOV joining (minLength 0-4, both orders), MeCab + Simple OOV providers, optional input-text plugins; \
         1-4 texts mixing numerals with separators at both edges, katakana runs (also starting with characters that may not start a word) and dictionary words. The same \
         text is analysed in modes C, A and B with and without the pathRewritePlugin list: boundaries(with) must be a subset of boundaries(without); a token covering k >= 2 plain \
         tokens must have the concatenation of their dictionary-side surfaces as surface and the POS the plugin prescribes; a token with the same range as one plain token \
         must be identical (word id, POS, forms) except for the documented single-token numeral normalisation, which keeps range, surface and POS. Non-trivial: at least \
         one merge happened."
    }
    fn strategy(&self, tier: Tier) -> BoxedStrategy<Case> {
        let mut dp = DicParams::small();
        dp.alphabet = vec!["1", "2", "0", "一", "十", "千", "万", ",", ".", "ア", "イ", "カ", "ー", "ッ", "あ", "a"];
        dp.max_key_chars = 3;
        dp.max_base = tier.pick(14, 30);
        dp.max_users = 1;
        dp.avoid_f12 = false;
        // rows with cost -32768 get their cost from an analysis made WITH the configured plugins at load
        // time, so the two dictionaries of the differential would not have the same costs
        dp.auto_cost = false;
        let cp = CfgParams { input_plugins: true, generated_rewrite: false, oov_variety: true, path_rewrite: true, inhibit: false, force_fallback: true };
        (world(dp, cp), vec(vec(text_piece(), 1..tier.pick(8, 20)), 1..=4))
            .prop_map(|((dic, mut cfg), texts)| {
                if cfg.path.is_empty() {
                    cfg.path = vec![PathPlugin::JoinNumeric { enable_normalize: None }, PathPlugin::JoinKatakana { pos: pos_from_str(POS_NOUN), min_length: 2 }];
                }
                cfg.chardef = FileSrc::Shipped;
                Case { dic, cfg, texts }
            })
            .boxed()
    }
    fn cases_per_shard(&self, tier: Tier) -> u32 {
        tier.pick(5000, 100000)
    }
    fn sample(&self, case: &Case) -> Value {
        let keys = all_keys(&case.dic);
        json!({
            "texts": case.texts.iter().map(|t| render_pieces(&keys, t)).collect::<Vec<_>>(),
            "system": case.dic.system.iter().map(|e| format!("{}:{}:{}", e.key, e.pos.join("-"), e.normalized)).collect::<Vec<_>>(),
            "path": case.cfg.path, "input": case.cfg.input,
        })
    }
    fn extra(&self, tier: Tier, _seed: u64, ctx: &mut Ctx, stats: &mut Stats) -> Vec<(Value, Failure)> {
        // merged tokens of thousands of plain tokens: digit runs and katakana runs whose byte length sits on
        // both sides of 2^8, 2^12, 2^15 (ranges are 16-bit) up to the input limit
        let (dic, cfg) = crate::props::c03::fallback_world_pub();
        let lens: Vec<u32> = match tier {
            Tier::Quick => vec![255, 256, 257, 4096, 32_766, 32_767, 32_768, 32_769, 49_149],
            Tier::Thorough => vec![127, 128, 255, 256, 257, 1023, 1024, 4095, 4096, 4097, 16_383, 16_384, 32_766, 32_767, 32_768, 32_769, 32_770, 40_000, 49_148, 49_149],
        };
        let mut fam: Vec<(String, Case)> = Vec::new();
        for n in lens {
            fam.push((format!("{} digits", n), Case { dic: dic.clone(), cfg: cfg.clone(), texts: vec![vec![Piece::Rep("1".into(), n)]] }));
            fam.push((format!("{} digits after a word", n - 2), Case { dic: dic.clone(), cfg: cfg.clone(), texts: vec![vec![Piece::Raw("a。".into()), Piece::Rep("1".into(), n.saturating_sub(6)), Piece::Raw("a".into())]] }));
            fam.push((format!("{} bytes of katakana", n / 3 * 3), Case { dic: dic.clone(), cfg: cfg.clone(), texts: vec![vec![Piece::Rep("ア".into(), n / 3)]] }));
            fam.push((format!("{} bytes of digit groups", n / 4 * 4), Case { dic: dic.clone(), cfg: cfg.clone(), texts: vec![vec![Piece::Raw("1".into()), Piece::Rep(",111".into(), n / 4 - 1)]] }));
        }
        run_family(self, ctx, stats, "long-merges", fam)
    }
    fn check(&self, case: &Case, ctx: &mut Ctx) -> Report {
        let mut rep = Report::default();
        let mut plain = case.cfg.clone();
        plain.path.clear();
        let (with, without) = match (build_world(&case.dic, &case.cfg, ctx), build_world(&case.dic, &plain, ctx)) {
            (Ok((a, _)), Ok((b, _))) => (a, b),
            _ => {
                rep.class("rejected");
                return rep;
            }
        };
        let mut allowed_pos: Vec<Vec<String>> = Vec::new();
        let mut numeric_normalize = false;
        for p in &case.cfg.path {
            match p {
                PathPlugin::JoinNumeric { enable_normalize } => {
                    allowed_pos.push(pos_from_str(POS_NUM).to_vec());
                    if enable_normalize.unwrap_or(true) {
                        numeric_normalize = true;
                    }
                }
                PathPlugin::JoinKatakana { pos, .. } => allowed_pos.push(pos.to_vec()),
            }
        }
        let keys = all_keys(&case.dic);
        for t in &case.texts {
            let text = render_pieces(&keys, t);
            if f7_guard(&mut rep, &case.dic, &case.cfg, &text, ctx.strict) {
                continue;
            }
          for mode in MODES {
            let (mw, mo) = match (analyze(&with, &text, mode, None), analyze(&without, &text, mode, None)) {
                (Ok(a), Ok(b)) => (a, b),
                (Err(_), Err(_)) => continue,
                (Err(e), Ok(_)) => {
                    rep.fail("rewrite-error", format!("text {:?}: analysis succeeds without path rewriting and fails with it: {}", text, e));
                    return rep;
                }
                (Ok(_), Err(e)) => {
                    rep.fail("plain-error", format!("text {:?}: analysis fails only without path rewriting: {}", text, e));
                    return rep;
                }
            };
            // text-side surface: a (merged) token must cover exactly text[begin..end]
            for m in mw.iter() {
                let (b, e) = (m.begin(), m.end());
                if b <= e && e <= text.len() && text.is_char_boundary(b) && text.is_char_boundary(e) {
                    let ok = guarded(|| &*m.surface() == &text[b..e]);
                    if ok != Ok(true) {
                        rep.fail("merged-text-surface", format!("text {:?}: token {}..{} of the rewritten path reports the surface {:?} instead of {:?}", text, b, e, guarded(|| m.surface().to_string()), &text[b..e]));
                        return rep;
                    }
                }
            }
            let (tw, to) = (toks(&mw), toks(&mo));
            let bo: BTreeSet<usize> = to.iter().flat_map(|t| [t.b, t.e]).collect();
            for t in &tw {
                if !bo.contains(&t.b) || !bo.contains(&t.e) {
                    rep.fail("boundary-moved", format!("text {:?}: token {}..{} of the rewritten path is not delimited by boundaries of the plain path {:?}", text, t.b, t.e, to.iter().map(|x| (x.b, x.e)).collect::<Vec<_>>()));
                    return rep;
                }
            }
            if to.iter().any(|x| x.b == x.e) || tw.iter().any(|x| x.b == x.e) {
                // empty-range tokens make the correspondence ambiguous: only the boundary clause is judged
                rep.class("empty-range token: alignment not judged");
                continue;
            }
            // align: every rewritten token covers one or more consecutive plain tokens
            let mut j = 0usize;
            for t in &tw {
                let start = j;
                let mut cat = String::new();
                while j < to.len() && to[j].b >= t.b && to[j].e <= t.e {
                    cat.push_str(&to[j].surface);
                    j += 1;
                }
                let covered = &to[start..j];
                if covered.is_empty() {
                    rep.fail("token-invented", format!("text {:?}: token {}..{} has no counterpart in the plain path", text, t.b, t.e));
                    return rep;
                }
                if covered.first().unwrap().b != t.b || covered.last().unwrap().e != t.e {
                    rep.fail("range-not-union", format!("text {:?}: token {}..{} vs plain tokens {:?}", text, t.b, t.e, covered.iter().map(|x| (x.b, x.e)).collect::<Vec<_>>()));
                    return rep;
                }
                if covered.len() >= 2 {
                    rep.nontrivial = true;
                    rep.class("merge");
                    // in modes A / B the plain tokens are the split units of the C words the plugins saw: the joined token's
                    // dictionary-side surface is built from those words, so this clause is judged in mode C only
                    if mode == Mode::C && t.surface != cat {
                        rep.fail("merged-surface", format!("text {:?}: merged token {}..{} has dictionary-side surface {:?}, the merged tokens give {:?}", text, t.b, t.e, t.surface, cat));
                        return rep;
                    }
                    if !allowed_pos.contains(&t.pos) {
                        rep.fail("merged-pos", format!("text {:?}: merged token {:?} carries POS {:?}; the configured plugins prescribe {:?}", text, t.surface, t.pos, allowed_pos));
                        return rep;
                    }
                    if t.pos == pos_from_str(POS_NUM).to_vec() {
                        rep.class("numeric merge");
                    } else {
                        rep.class("katakana merge");
                    }
                } else {
                    let o = &covered[0];
                    if t == o || mode != Mode::C {
                        continue;
                    }
                    // documented exception: single numeral token whose normalised form was replaced
                    let exception = numeric_normalize && o.pos == pos_from_str(POS_NUM).to_vec() && t.pos == o.pos && t.surface == o.surface && t.b == o.b && t.e == o.e;
                    if exception {
                        rep.class("single-token numeral normalisation");
                        continue;
                    }
                    rep.fail("unmerged-token-changed", format!("text {:?}: token {}..{} is not part of a merge but differs: {:?} vs plain {:?}", text, t.b, t.e, t, o));
                    return rep;
                }
            }
            if j != to.len() {
                rep.fail("token-dropped", format!("text {:?}: plain tokens from index {} on are not covered by the rewritten path", text, j));
                return rep;
            }
          }
        }
        rep
    }
}
