pub mod c01;
pub mod c03;
