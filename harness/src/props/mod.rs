pub mod c01;
pub mod c03;
pub mod c04;
pub mod c05;
