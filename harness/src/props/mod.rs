pub mod c01;
