pub mod c01;
pub mod c02;
pub mod c03;
pub mod c04;
pub mod c05;
pub mod c06;
pub mod c07;
pub mod c08;
