//! C16 — sentence splitting partitions the text and breaks only after terminators.

use crate::common::*;
use crate::engine::*;
use crate::model::cfg::CfgModel;
use crate::model::dic::*;
use proptest::collection::vec;
use proptest::prelude::*;
use proptest::sample::select;
use serde::{Deserialize, Serialize};
use serde_json::{json, Value};
use sudachi::analysis::stateless_tokenizer::DictionaryAccess;
use sudachi::sentence_splitter::{SentenceSplitter, SplitSentences};

#[derive(Clone, Debug, Serialize, Deserialize)]
pub struct Case {
    pub words: Vec<String>,
    pub text: String,
    /// None: default window
    pub limit: Option<usize>,
    pub checker: bool,
    /// the constructively simple family on which the converse is required
    pub simple: bool,
    /// words of a user dictionary layered over the system dictionary of `words`
    #[serde(default)]
    pub user_words: Vec<String>,
    /// converse family: the one terminator unit the text contains besides neutral characters (None: 。 and 、)
    #[serde(default)]
    pub term: Option<String>,
}

pub struct C16;

const PERIODS: &str = "。？！♪…?!";
const DOTS: &str = ".．";
const COMMA: &str = ",，、";
const OPEN: &str = "({｛[（「【『［≪〔“";
const CLOSE: &str = ")}]）」｝】』］〕≫”";

fn text_piece() -> BoxedStrategy<String> {
    prop_oneof![
        8 => select(vec!["。", "？", "！", "♪", "…", "?", "!", ".", "．"]).prop_map(|s| s.to_string()),
        2 => select(vec!["・", "・・・", "・・・・", "<br>", "<br><br>", "<BR><BR><br>"]).prop_map(|s| s.to_string()),
        5 => select(vec!["(", "（", "「", "【", "[", ")", "）", "」", "】", "]", "”", "“"]).prop_map(|s| s.to_string()),
        3 => select(vec![",", "、", "，"]).prop_map(|s| s.to_string()),
        4 => select(vec!["a", "B", "1", "２", "一", "十", "3.14", "A.", "Y", "w", "Y!", "a!"]).prop_map(|s| s.to_string()),
        4 => select(vec!["と", "っ", "です", "や", "の"]).prop_map(|s| s.to_string()),
        10 => select(vec!["あ", "い", "漢", "字", "な", "娘", "モ", "ー", "é", "𠮷"]).prop_map(|s| s.to_string()),
        2 => select(vec![" ", "　", "\n", "\t"]).prop_map(|s| s.to_string()),
        // characters that mean something inside a regular expression or a character class, and other neutral signs
        2 => select(vec!["\\", "¥", "＼", "/", "-", "_", "^", "|", "*", "+", "$", "~", "&", "#", "@", "C:\\a\\", "\\n"]).prop_map(|s| s.to_string()),
    ]
    .boxed()
}

fn word() -> BoxedStrategy<String> {
    prop_oneof![
        4 => select(vec!["。", "？", "!", ".", "、"]).prop_map(|s| s.to_string()),
        4 => select(vec!["な。な", "娘。", "モー娘。", "。な", "あ。", "い！い", "a.b", "字？", "）。"]).prop_map(|s| s.to_string()),
        // more than 30 bytes before the end of the terminator
        1 => select(vec!["あいあいあいあいあいあ。い", "あいあいあいあいあい娘。", "Wake Up, Girls and Boys and Girls!", "abcdefghijklmnopqrstuvwxyzabcde!f"]).prop_map(|s| s.to_string()),
        3 => select(vec!["Y!", "a!", "!?", "w?", "a.", "é!", "1.", "B?!"]).prop_map(|s| s.to_string()),
        // more than 10 characters but at most 30 bytes before the end of the terminator
        1 => select(vec!["Angel Beats!", "Wake Up, Girls!", "BanG Dream!a", "abcdefghijklmnopqrstuvwxyz!", "éééééééééééé!", "Love Live! Sunshine!!"]).prop_map(|s| s.to_string()),
        6 => vec(select(vec!["あ", "い", "漢", "字", "な", "娘", "a", "1"]), 1..=3).prop_map(|v| v.concat()),
    ]
    .boxed()
}

fn simple_text(max: usize) -> BoxedStrategy<String> {
    vec(prop_oneof![5 => select(vec!["あ", "い", "漢"]), 2 => Just("。"), 1 => Just("、")], 0..=max).prop_map(|v| v.concat()).boxed()
}

fn simple_word() -> BoxedStrategy<String> {
    prop_oneof![2 => Just("。".to_string()), 5 => vec(select(vec!["あ", "い", "漢"]), 1..=3).prop_map(|v| v.concat())].boxed()
}

thread_local! {
    static SUFFIX: regex::Regex = regex::Regex::new(&format!(
        "(?:[{p}]|・{{3,}}|[{d}]|(?:<br>|<BR>){{2,}})[{d}{p}]*[{c}{k}{p}]*$",
        p = regex::escape(PERIODS), d = regex::escape(DOTS), c = regex::escape(CLOSE), k = regex::escape(COMMA)
    )).unwrap();
}

fn paren_level(s: &str) -> usize {
    let mut level = 0usize;
    for c in s.chars() {
        if OPEN.contains(c) {
            level += 1;
        } else if CLOSE.contains(c) && level > 0 {
            level -= 1;
        }
    }
    level
}

impl Property for C16 {
    type Case = Case;
    fn id(&self) -> &'static str {
        "C16"
    }
    fn rule(&self) -> &'static str {
        "case = a text of 0-40 pieces (literals, the dictionary's own words, runs of one piece of 2^k-1 / 2^k / 2^k+1 repetitions up to 600, thorough 2,100; a family padded to the 4,096 window end) over terminators, ・ runs, <br> tags, both kinds of brackets (nested, unbalanced), commas, \
         alphanumerics and kanji numerals, quote particles, neutral 1-4 byte characters and whitespace; a window limit 1-12 or the default; with / without the dictionary based \
         non-break check, the dictionary containing the terminator as a one-character word, words containing / ending with / starting with it, and plain words. Oracle: ranges are \
         non-empty, contiguous from 0 to the end, on character boundaries, slices equal the text, iteration stops within len+1 steps; every sentence but the last ends with a \
         terminator group; the bracket level counted from the sentence start is 0 at every break; with the checker no multi-character dictionary word overlapping the terminator \
         group crosses or ends at a break. Converse, on the simple family (only 。 and 、, no brackets / particles / alphanumerics, words free of terminators except one-character \
         rows, text within the window): a break after every 。 group. Non-trivial: >= 2 sentences."
    }
    fn assumptions(&self) -> Vec<&'static str> {
        vec![
            "the converse clause is only required for texts that fit the window limit (beyond it the splitter deliberately returns the rest of the text as one sentence)",
            "only dictionary words that overlap the terminator group are required to veto a break (the implementation vetoes every crossing word)",
        ]
    }
    fn strategy(&self, tier: Tier) -> BoxedStrategy<Case> {
        let maxp = tier.pick(40usize, 120usize);
        // text pieces are literals, the dictionary's own words (so that words containing a terminator
        // really occur, also across the end of the window), or long runs of one piece (bracket
        // depths and sentence lengths on both sides of 2^k and of the 4,096 window)
        #[derive(Clone, Debug)]
        enum TP {
            Lit(String),
            Word(u16),
            Run(String, usize),
        }
        let run_unit = select(vec!["(", "（", "「", ")", "」", "あ", "a", "。", "あ。", "(あ。", "・", "<br>", ",", "な。な", "𠮷"]);
        let tp = prop_oneof![
            12 => text_piece().prop_map(TP::Lit),
            5 => any::<u16>().prop_map(TP::Word),
            1 => (run_unit, crate::gen::boundary_len(tier.pick(600, 2100))).prop_map(|(u, n)| TP::Run(u.to_string(), n)),
        ];
        fn render(words: &[String], t: &[TP]) -> String {
            let mut s = String::new();
            for p in t {
                match p {
                    TP::Lit(l) => s.push_str(l),
                    TP::Word(i) => {
                        if !words.is_empty() {
                            s.push_str(&words[crate::gen::ix(*i, words.len())]);
                        }
                    }
                    TP::Run(u, n) => {
                        for _ in 0..*n {
                            s.push_str(u);
                        }
                    }
                }
            }
            s
        }
        let general = (vec(word(), 0..8), prop_oneof![2 => Just(Vec::new()), 1 => vec(word(), 1..4)], vec(tp.clone(), 0..=maxp), prop::option::weighted(0.6, 0usize..=12), any::<bool>())
            .prop_map(|(words, user_words, t, limit, checker)| {
                let all: Vec<String> = words.iter().chain(user_words.iter()).cloned().collect();
                Case { text: render(&all, &t), words, user_words, limit, checker, simple: false, term: None }
            });
        // a text longer than the default window whose window end falls among dictionary words and terminators
        let straddle = (vec(word(), 1..8), 4070usize..4100, vec(tp, 1..=30), any::<bool>()).prop_map(|(words, pad, t, checker)| {
            let mut text = "あ".repeat(pad);
            text.push_str(&render(&words, &t));
            Case { text, words, user_words: vec![], limit: None, checker, simple: false, term: None }
        });
        let simple = (vec(simple_word(), 0..6), simple_text(40), prop::option::weighted(0.3, 40usize..=60), any::<bool>())
            .prop_map(|(words, text, limit, checker)| Case { words, text, limit, checker, simple: true, user_words: vec![], term: None });
        let long = (vec(word(), 0..4), vec(text_piece(), 1..=20), 1usize..400, any::<bool>()).prop_map(|(words, unit, reps, checker)| {
            let u = unit.concat();
            Case { words, text: u.repeat(reps * 4), limit: None, checker, simple: false, user_words: vec![], term: None }
        });
        // converse on one terminator kind at a time: neutral characters (no brackets, particles, alphanumerics)
        // and runs of a single terminator unit; every run must end a sentence
        let sparse = (
            prop_oneof![1 => vec(simple_word(), 0..5), 1 => vec(prop_oneof![simple_word(), select(vec!["な。な", "娘。", "。な", "あ。あ", "モー娘。"]).prop_map(|x| x.to_string())], 1..5)],
            select(vec!["。", "。", "。", "。", "。", "？", "！", "♪", "…", "?", "!", ".", "．", "・・・", "<br><br>", "<BR><BR>", "<br><BR>", "<BR><br><BR>"]),
            vec(prop_oneof![5 => select(vec!["あ", "い", "漢", "字", "な", "娘", "モ", "ー", "な。な", "娘。", "\\", "¥", "/", "-", "_", "^", "|", "*", "+", "$", "~"]).prop_map(|x| Some(x)), 1 => Just(None)], 0..30),
            any::<bool>(),
        )
            .prop_map(|(words, term, body, checker)| {
                // pieces and words that contain 。 only take part when 。 is the terminator under test
                let text: String = body.iter().map(|p| p.unwrap_or(term)).map(|p| if p.contains('。') && term != "。" { "な" } else { p }).collect();
                let words: Vec<String> = words.into_iter().filter(|w| term == "。" || !w.contains('。')).collect();
                Case { words, text, limit: None, checker, simple: true, user_words: vec![], term: Some(term.to_string()) }
            });
        prop_oneof![12 => general, 4 => simple, 4 => sparse, 1 => straddle, tier.pick(0, 2) => long].boxed()
    }
    fn cases_per_shard(&self, tier: Tier) -> u32 {
        // thorough: 16 x 40,000 (the first thorough soak needed 77 minutes with 100,000 cases and runs of 5,000)
        tier.pick(6000, 40000)
    }
    fn extra(&self, tier: Tier, _seed: u64, ctx: &mut Ctx, stats: &mut Stats) -> Vec<(Value, Failure)> {
        // windows far above the default: "every processing-window limit" includes the caller who asks for no window
        let mut fam: Vec<(String, Case)> = Vec::new();
        let lens: &[usize] = if tier == Tier::Quick { &[170_000] } else { &[100_000, 166_665, 166_667, 170_000, 400_000] };
        for n in lens {
            for limit in [200_000usize, 1_000_000, usize::MAX / 2] {
                for (unit, tail) in [("あ", "。いう。"), ("a", ".b c."), ("1.", "。")] {
                    let text = format!("{}{}", unit.repeat(*n / unit.chars().count()), tail);
                    let converse = unit == "あ";
                    for checker in [false, true] {
                        fam.push((format!("{} x {:?} under window {} checker {}", n, unit, limit, checker), Case { words: vec![], user_words: vec![], text: text.clone(), limit: Some(limit), checker, simple: converse, term: if converse { Some("。".to_string()) } else { None } }));
                    }
                }
            }
        }
        run_family(self, ctx, stats, "large-window", fam)
    }
    fn check(&self, case: &Case, ctx: &mut Ctx) -> Report {
        let mut rep = Report::default();
        let pos = pos_from_str(POS_NOUN);
        let mut system = vec![Entry::simple("ダミー", 0, 0, 100, &pos)];
        for w in &case.words {
            system.push(Entry::simple(w, 0, 0, 100, &pos));
        }
        let users = if case.user_words.is_empty() { vec![] } else { vec![case.user_words.iter().map(|w| Entry::simple(w, 0, 0, 100, &pos)).collect::<Vec<_>>()] };
        let dic = DicModel { matrix: Matrix { nl: 1, nr: 1, lines: vec![] }, system, users };
        let (dict, _) = match build_world(&dic, &CfgModel::minimal(&pos), ctx) {
            Ok(x) => x,
            Err(_) => {
                rep.class("rejected");
                return rep;
            }
        };
        let text = &case.text;
        let base = match case.limit {
            Some(l) => SentenceSplitter::with_limit(l),
            None => SentenceSplitter::new(),
        };
        let splitter = if case.checker { base.with_checker(dict.lexicon()) } else { base };
        // (1) partition, termination
        let mut sentences: Vec<(usize, usize)> = Vec::new();
        let mut posn = 0usize;
        let mut steps = 0usize;
        let r = guarded(|| {
            let mut out = Vec::new();
            for (range, s) in splitter.split(text) {
                out.push((range.start, range.end, s.to_string()));
                if out.len() > text.len() + 1 {
                    break;
                }
            }
            out
        });
        let out = match r {
            Ok(o) => o,
            Err(p) => {
                rep.fail(&format!("panic:{}", panic_site(&p)), format!("text {:?} limit {:?} checker {}: {}", text, case.limit, case.checker, p));
                return rep;
            }
        };
        for (b, e, s) in &out {
            steps += 1;
            if steps > text.len() + 1 {
                rep.fail("no-termination", format!("text {:?}: more than len+1 sentences", text));
                return rep;
            }
            if *b != posn || *e <= *b || *e > text.len() || !text.is_char_boundary(*b) || !text.is_char_boundary(*e) {
                rep.fail("partition", format!("text {:?} limit {:?}: sentence {}..{} after position {}", text, case.limit, b, e, posn));
                return rep;
            }
            if s != &text[*b..*e] {
                rep.fail("slice", format!("text {:?}: sentence {}..{} reported as {:?}", text, b, e, s));
                return rep;
            }
            sentences.push((*b, *e));
            posn = *e;
        }
        if posn != text.len() {
            rep.fail("coverage", format!("text {:?}: sentences end at {} of {}", text, posn, text.len()));
            return rep;
        }
        if sentences.len() >= 2 {
            rep.nontrivial = true;
        }
        if text.chars().count() > case.limit.unwrap_or(4096) {
            rep.class("text longer than the window");
        }
        // (2) (3) (4) for every sentence but the last
        for (k, (b, e)) in sentences.iter().enumerate() {
            if k + 1 == sentences.len() {
                break;
            }
            let s = &text[*b..*e];
            let tstart = SUFFIX.with(|re| re.find(s).map(|m| m.start()));
            let Some(tstart) = tstart else {
                rep.fail("no-terminator", format!("text {:?} limit {:?} checker {}: sentence {:?} is not the last one and does not end with a terminator group", text, case.limit, case.checker, s));
                return rep;
            };
            if paren_level(s) != 0 {
                rep.fail("inside-brackets", format!("text {:?}: break after {:?} inside an unclosed bracket pair", text, s));
                return rep;
            }
            if case.checker {
                // dictionary words overlapping the terminator group that cross or end at the break
                // every dictionary word of the sentence is looked at; the implementation only looks at words that start
                // within 30 bytes before the break (known finding F30: a longer word does not protect its terminator)
                let p = *e;
                for i in *b..p {
                    if !text.is_char_boundary(i) {
                        continue;
                    }
                    for w in case.words.iter().chain(case.user_words.iter()) {
                        if text[i..].starts_with(w.as_str()) {
                            let j = i + w.len();
                            let overlaps = j > b + tstart;
                            if overlaps && (j > p || (j == p && w.chars().count() > 1)) {
                                if p - i > 30 && !ctx.strict {
                                    rep.excluded = Some("F30");
                                    continue;
                                }
                                rep.fail("break-inside-word", format!("text {:?} limit {:?}: break at byte {} although the dictionary word {:?} at {}..{} contains / ends with the terminator", text, case.limit, p, w, i, j));
                                return rep;
                            }
                        }
                    }
                }
            }
        }
        // (5) converse on the simple family
        if case.simple && text.chars().count() <= case.limit.unwrap_or(4096) {
            let mut want: Vec<usize> = Vec::new();
            let mut ambiguous = false;
            if let Some(t) = &case.term {
                // maximal runs of the terminator unit
                let mut i = 0usize;
                while i < text.len() {
                    if text[i..].starts_with(t.as_str()) {
                        let mut j = i;
                        while text[j..].starts_with(t.as_str()) {
                            j += t.len();
                        }
                        // <br> runs may continue in the other spelling
                        if t.starts_with('<') {
                            while text[j..].starts_with("<br>") || text[j..].starts_with("<BR>") {
                                j += 4;
                            }
                        }
                        want.push(j);
                        i = j;
                    } else {
                        i += text[i..].chars().next().unwrap().len_utf8();
                    }
                }
            } else {
                let cs: Vec<(usize, char)> = text.char_indices().collect();
                let mut i = 0;
                while i < cs.len() {
                    if cs[i].1 == '。' {
                        let mut j = i + 1;
                        while j < cs.len() && (cs[j].1 == '。' || cs[j].1 == '、') {
                            j += 1;
                        }
                        let end = if j < cs.len() { cs[j].0 } else { text.len() };
                        want.push(end);
                        i = j;
                    } else {
                        i += 1;
                    }
                }
            }
            if case.checker {
                // a run end is not a break if a dictionary word (of more than one character when it ends exactly there)
                // that starts within the 30 bytes before it reaches or crosses it; the sentence then goes on
                let words: Vec<&String> = case.words.iter().chain(case.user_words.iter()).collect();
                let mut bos = 0usize;
                let mut kept = Vec::new();
                for e in want.iter().cloned() {
                    if ambiguous {
                        break;
                    }
                    let from = std::cmp::max(30, e - bos) - 30 + bos;
                    let veto = (from..e).filter(|i| text.is_char_boundary(*i)).any(|i| {
                        words.iter().any(|w| text[i..].starts_with(w.as_str()) && (i + w.len() > e || (i + w.len() == e && w.chars().count() > 1)))
                    });
                    // a word that starts earlier than that and reaches the run: the statement wants no break, the
                    // implementation breaks (known finding F30); either is accepted here, check (4) accounts for it
                    let far = !veto && (bos..from).filter(|i| text.is_char_boundary(*i)).any(|i| {
                        words.iter().any(|w| text[i..].starts_with(w.as_str()) && (i + w.len() > e || (i + w.len() == e && w.chars().count() > 1)))
                    });
                    if far {
                        ambiguous = true;
                    }
                    if veto {
                        rep.class("converse: run inside a dictionary word (no break)");
                    } else {
                        kept.push(e);
                        bos = e;
                    }
                }
                want = kept;
            }
            if want.last() != Some(&text.len()) && !text.is_empty() {
                want.push(text.len());
            }
            let got: Vec<usize> = sentences.iter().map(|x| x.1).collect();
            if ambiguous {
                rep.class("converse: not judged, a word longer than the look-back reaches a run (F30)");
                return rep;
            }
            if got != want {
                rep.fail("missing-break", format!("text {:?} words {:?} checker {}: sentence ends {:?}, every terminator run must end a sentence: {:?}", text, case.words, case.checker, got, want));
                return rep;
            }
            rep.class("converse checked");
            if case.checker && case.words.iter().any(|w| w == "。") {
                rep.class("terminator is a dictionary word");
            }
        }
        rep
    }
}
