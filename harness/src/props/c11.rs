//! C11 — loading a subset of word fields never changes the fields that were requested.

use crate::common::*;
use crate::engine::*;
use crate::gen::*;
use crate::model::cfg::CfgModel;
use crate::model::dic::*;
use proptest::collection::vec;
use proptest::prelude::*;
use serde::{Deserialize, Serialize};
use serde_json::{json, Value};
use sudachi::analysis::stateful_tokenizer::StatefulTokenizer;
use sudachi::analysis::stateless_tokenizer::DictionaryAccess;
use sudachi::analysis::Mode;
use sudachi::dic::lexicon::word_infos::WordInfo;
use sudachi::dic::subset::InfoSubset;
use sudachi::dic::word_id::WordId;
use sudachi::prelude::MorphemeList;

#[derive(Clone, Debug, Serialize, Deserialize)]
pub struct Case {
    pub dic: DicModel,
    pub cfg: CfgModel,
    pub texts: Vec<Vec<Piece>>,
    /// subsets for the tokenizer-level part
    pub subsets: Vec<u16>,
    /// rewrite the version word of the compiled dictionaries to the formats without synonym ids
    pub legacy: bool,
    /// 0: new(mode)+set_subset, 1: new(C)+set_mode+set_subset, 2: new(C)+set_subset+set_mode
    pub order: u8,
}

pub struct C11;

const FIELDS: [(InfoSubset, &str); 10] = [
    (InfoSubset::SURFACE, "surface"),
    (InfoSubset::HEAD_WORD_LENGTH, "head_word_length"),
    (InfoSubset::POS_ID, "pos_id"),
    (InfoSubset::NORMALIZED_FORM, "normalized_form"),
    (InfoSubset::DIC_FORM_WORD_ID, "dictionary_form"),
    (InfoSubset::READING_FORM, "reading_form"),
    (InfoSubset::SPLIT_A, "a_unit_split"),
    (InfoSubset::SPLIT_B, "b_unit_split"),
    (InfoSubset::WORD_STRUCTURE, "word_structure"),
    (InfoSubset::SYNONYM_GROUP_ID, "synonym_group_ids"),
];

fn field_value(wi: &WordInfo, f: InfoSubset) -> String {
    if f == InfoSubset::SURFACE {
        wi.surface().to_string()
    } else if f == InfoSubset::HEAD_WORD_LENGTH {
        wi.head_word_length().to_string()
    } else if f == InfoSubset::POS_ID {
        wi.pos_id().to_string()
    } else if f == InfoSubset::NORMALIZED_FORM {
        wi.normalized_form().to_string()
    } else if f == InfoSubset::DIC_FORM_WORD_ID {
        format!("{}|{}", wi.dictionary_form_word_id(), wi.dictionary_form())
    } else if f == InfoSubset::READING_FORM {
        wi.reading_form().to_string()
    } else if f == InfoSubset::SPLIT_A {
        format!("{:?}", wi.a_unit_split())
    } else if f == InfoSubset::SPLIT_B {
        format!("{:?}", wi.b_unit_split())
    } else if f == InfoSubset::WORD_STRUCTURE {
        format!("{:?}", wi.word_structure())
    } else {
        format!("{:?}", wi.synonym_group_ids())
    }
}

const SYSTEM_V1: u64 = 0x7366d3f18bd111e7;
const USER_V2: u64 = 0x9fdeb5a90168d868;

impl Property for C11 {
    type Case = Case;
    fn id(&self) -> &'static str {
        "C11"
    }
    fn rule(&self) -> &'static str {
        "case = generated system + 0-2 user lexicons (every combination of elided / explicit forms, dic-form references incl. words that are their own \
         dictionary form, splits, word structure, synonym ids), current or legacy (no synonym ids) binary format, a plugin configuration, 1-3 texts, 4 field subsets \
         and one of four call orders of set_mode / set_subset. Part 1: for EVERY word of every dictionary and ALL 1024 subsets S, every field of S read through its \
         accessor after get_word_info_subset(S closed as the tokenizer closes it) equals the value after a full load. Part 2: analyses with set_subset(S) in modes \
         A/B/C: the partition holds for every S; when no path-rewrite plugin is configured or S contains surface, POS and normalised form the tokens (range, word id) \
         equal the full-field analysis and every requested field of every morpheme equals the full-field value. Non-trivial: a subset that skips a variable-length \
         field before a requested one, or requests a form whose stored value is elided."
    }
    fn assumptions(&self) -> Vec<&'static str> {
        vec![
            "subsets are closed with InfoSubset::normalize(), the closure the tokenizer applies itself",
            "legacy formats are obtained by rewriting the 8-byte version word of a freshly compiled dictionary (system v2 -> v1, user v3 -> v2); the record layout up to the synonym array is identical",
        ]
    }
    fn strategy(&self, tier: Tier) -> BoxedStrategy<Case> {
        let mut dp = DicParams::small();
        dp.max_base = tier.pick(6, 12);
        dp.max_compound = 2;
        dp.boundaries = true;
        // every word is read under all 1,024 subsets: keep the homograph family small here (C04 / C10 carry the big one)
        dp.homographs = 12;
        dp.max_user_entries = 4;
        (world(dp, CfgParams::full()), vec(pieces_long(tier.pick(8, 20)), 1..=3), vec(prop_oneof![0u16..1024, (0u16..1024).prop_map(|x| x | 13)], 4), prop::bool::weighted(0.3), 0u8..4)
            .prop_map(|((dic, cfg), texts, subsets, legacy, order)| Case { dic, cfg, texts, subsets, legacy, order })
            .boxed()
    }
    fn cases_per_shard(&self, tier: Tier) -> u32 {
        tier.pick(1200, 25000)
    }
    fn sample(&self, case: &Case) -> Value {
        let keys = all_keys(&case.dic);
        json!({
            "texts": case.texts.iter().map(|t| render_pieces(&keys, t)).collect::<Vec<_>>(),
            "system_csv": render_csv(&case.dic.system),
            "subsets": case.subsets, "legacy": case.legacy, "order": case.order,
            "path_plugins": case.cfg.path,
        })
    }
    fn check(&self, case: &Case, ctx: &mut Ctx) -> Report {
        let mut rep = Report::default();
        let mut compiled = match guarded(|| compile_model(&case.dic)) {
            Ok(Ok(c)) => c,
            _ => {
                rep.class("rejected");
                return rep;
            }
        };
        if case.legacy {
            compiled.system[..8].copy_from_slice(&SYSTEM_V1.to_le_bytes());
            for u in compiled.users.iter_mut() {
                u[..8].copy_from_slice(&USER_V2.to_le_bytes());
            }
            rep.class("legacy format");
        }
        let config = match build_config(&case.cfg, ctx) {
            Ok(c) => c,
            Err(_) => {
                rep.class("rejected");
                return rep;
            }
        };
        let dict = match guarded(|| load(&compiled, &config)) {
            Ok(Ok(d)) => d,
            _ => {
                rep.class("rejected");
                return rep;
            }
        };
        // ---- part 1: every word x all subsets ------------------------------------------------
        let lex = dict.lexicon();
        for d in 0..case.dic.num_dics() {
            for n in 0..case.dic.dic(d).len() {
                let id = WordId::new(d as u8, n as u32);
                let full = match lex.get_word_info(id) {
                    Ok(w) => w,
                    Err(e) => {
                        rep.fail("full-load", format!("{:?}: {}", id, e));
                        return rep;
                    }
                };
                let full_vals: Vec<String> = FIELDS.iter().map(|(f, _)| field_value(&full, *f)).collect();
                let e = &case.dic.dic(d)[n];
                for bits in 0u32..1024 {
                    let s = InfoSubset::from_bits_truncate(bits).normalize();
                    let part = match lex.get_word_info_subset(id, s) {
                        Ok(w) => w,
                        Err(er) => {
                            rep.fail("subset-load", format!("{:?} subset {:?}: {}", id, s, er));
                            return rep;
                        }
                    };
                    for (k, (f, name)) in FIELDS.iter().enumerate() {
                        if !s.contains(*f) {
                            continue;
                        }
                        let v = field_value(&part, *f);
                        if v != full_vals[k] {
                            rep.fail(
                                &format!("word-field:{}", name),
                                format!("word {:?} (key {:?}) subset {:?}: {} = {:?} but {:?} when everything is loaded", id, e.key, s, name, v, full_vals[k]),
                            );
                            return rep;
                        }
                    }
                }
                if e.reading == e.headword || e.normalized == e.headword || e.dic_form.is_none() {
                    rep.nontrivial = true;
                }
                if e.dic_form.is_none() {
                    rep.class("own dictionary form");
                }
            }
        }
        // ---- part 2: tokenizer level -------------------------------------------------------
        let keys = all_keys(&case.dic);
        let need = InfoSubset::SURFACE | InfoSubset::POS_ID | InfoSubset::NORMALIZED_FORM;
        for t in &case.texts {
            let text = render_pieces(&keys, t);
            if f7_guard(&mut rep, &case.dic, &case.cfg, &text, ctx.strict) {
                continue;
            }
            for mode in MODES {
                let full = match analyze(&dict, &text, mode, None) {
                    Ok(m) => m,
                    Err(_) => continue,
                };
                // one result list serves the tokenizers of all four field requests (a list remembers the request of
                // its last collect; that must not leak into the tokenizer that uses it next)
                let mut ml = MorphemeList::empty(&dict);
                for (k, sb) in case.subsets.iter().enumerate() {
                    let s = InfoSubset::from_bits_truncate(*sb as u32);
                    let mut tok = match case.order {
                        0 => {
                            let mut t = StatefulTokenizer::new(&dict, mode);
                            t.set_subset(s);
                            t
                        }
                        1 => {
                            let mut t = StatefulTokenizer::new(&dict, Mode::C);
                            t.set_mode(mode);
                            t.set_subset(s);
                            t
                        }
                        2 => {
                            let mut t = StatefulTokenizer::new(&dict, Mode::C);
                            t.set_subset(s);
                            t.set_mode(mode);
                            t
                        }
                        _ => {
                            // a longer life: another request without the reference fields, another mode, then the real ones
                            let mut t = StatefulTokenizer::new(&dict, Mode::C);
                            t.set_subset(s - (InfoSubset::SPLIT_A | InfoSubset::SPLIT_B | InfoSubset::WORD_STRUCTURE));
                            t.set_mode(if mode == Mode::A { Mode::B } else { Mode::A });
                            t.set_subset(s);
                            t.set_mode(mode);
                            t
                        }
                    };
                    tok.reset().push_str(&text);
                    if let Err(e) = tok.do_tokenize() {
                        rep.fail("subset-analysis-error", format!("text {:?} mode {} subset {:?}: full analysis succeeds, with the subset: {}", text, mode_name(mode), s, e));
                        return rep;
                    }
                    if ml.collect_results(&mut tok).is_err() {
                        continue;
                    }
                    if (text.len() + k) % 2 == 0 {
                        // a second analysis on the same tokenizer after it exchanged buffers with the list (every other
                        // field request, so that the list carries the request of another tokenizer when it happens)
                        tok.reset().push_str(&text);
                        if let Err(e) = tok.do_tokenize() {
                            rep.fail("subset-analysis-error", format!("text {:?} mode {} subset {:?}: second analysis on the same tokenizer: {}", text, mode_name(mode), s, e));
                            return rep;
                        }
                        if ml.collect_results(&mut tok).is_err() {
                            continue;
                        }
                    }
                    if let Err((clause, detail)) = check_partition(&text, &ml) {
                        rep.fail(&format!("subset-partition:{}", clause), format!("text {:?} mode {} subset {:?}: {}", text, mode_name(mode), s, detail));
                        return rep;
                    }
                    let closed = s.normalize();
                    if case.cfg.path.is_empty() || closed.contains(need) {
                        let a: Vec<_> = full.iter().map(|m| (m.begin(), m.end(), m.word_id())).collect();
                        let b: Vec<_> = ml.iter().map(|m| (m.begin(), m.end(), m.word_id())).collect();
                        if a != b {
                            rep.fail("subset-changes-tokens", format!("text {:?} mode {} subset {:?} order {}: tokens {:?} but {:?} with all fields", text, mode_name(mode), s, case.order, b, a));
                            return rep;
                        }
                        for (mf, mp) in full.iter().zip(ml.iter()) {
                            for (f, name) in FIELDS.iter() {
                                if !closed.contains(*f) {
                                    continue;
                                }
                                let (vf, vp) = (field_value(mf.get_word_info(), *f), field_value(mp.get_word_info(), *f));
                                if vf != vp {
                                    rep.fail(&format!("morpheme-field:{}", name), format!("text {:?} mode {} subset {:?}: morpheme {}..{} {} = {:?} but {:?} with all fields", text, mode_name(mode), s, mp.begin(), mp.end(), name, vp, vf));
                                    return rep;
                                }
                                // the Morpheme-level accessors too
                                if *f == InfoSubset::DIC_FORM_WORD_ID && mf.dictionary_form() != mp.dictionary_form() {
                                    rep.fail("morpheme-field:dictionary_form", format!("text {:?} subset {:?}: dictionary_form() {:?} vs {:?}", text, s, mp.dictionary_form(), mf.dictionary_form()));
                                    return rep;
                                }
                            }
                        }
                        rep.class("tokens compared");
                    } else {
                        rep.class("partition only (path plugins need more fields)");
                    }
                }
            }
        }
        rep
    }
}
