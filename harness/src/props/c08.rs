//! C08 — code-point offsets agree with byte offsets; the offset map is monotone and anchored.

use crate::common::*;
use crate::engine::*;
use crate::gen::*;
use crate::model::cfg::CfgModel;
use crate::model::dic::*;
use proptest::collection::vec;
use proptest::prelude::*;
use serde::{Deserialize, Serialize};
use serde_json::{json, Value};
use sudachi::analysis::stateless_tokenizer::DictionaryAccess;
use sudachi::input_text::{InputBuffer, InputTextIndex};

#[derive(Clone, Debug, Serialize, Deserialize)]
pub struct Edit {
    pub skip: u16,
    pub len: u16,
    pub with: String,
    /// 0 replace_ref, 1 replace_char (if one char), 2 replace_own, 3 replace_char_iter
    pub api: u8,
    /// the replaced range is empty (an insertion in front of the character the skip leads to, or at the end)
    #[serde(default)]
    pub insert: bool,
}

#[derive(Clone, Debug, Serialize, Deserialize)]
pub enum Case {
    World { dic: DicModel, cfg: CfgModel, texts: Vec<Vec<Piece>> },
    Edits {
        original: String,
        batches: Vec<Vec<Edit>>,
        /// what the buffer object went through before: bit 0 = a longer text of other character widths with an
        /// expanding and a deleting batch, built; bit 1 = a batch rejected because the text would exceed 65,535 bytes;
        /// bit 2 = every batch is first attempted with an edit function that fails after recording the edits
        #[serde(default)]
        age: u8,
    },
}

pub struct C08;

thread_local! {
    static GRAMMAR_DICT: std::cell::RefCell<Option<std::rc::Rc<Dict>>> = std::cell::RefCell::new(None);
}

fn grammar_dict(ctx: &Ctx) -> std::rc::Rc<Dict> {
    GRAMMAR_DICT.with(|g| {
        let mut g = g.borrow_mut();
        if g.is_none() {
            let dic = DicModel { matrix: Matrix { nl: 1, nr: 1, lines: vec![] }, system: vec![Entry::simple("a", 0, 0, 0, &pos_from_str(POS_NOUN))], users: vec![] };
            let cfg = CfgModel::minimal(&pos_from_str(POS_NOUN));
            let (d, _) = build_world(&dic, &cfg, ctx).map_err(|e| e.describe()).expect("grammar dictionary");
            *g = Some(std::rc::Rc::new(d));
        }
        g.as_ref().unwrap().clone()
    })
}

fn edit_string() -> BoxedStrategy<String> {
    prop_oneof![
        3 => Just(String::new()),
        4 => pool_char().prop_map(|c| c.to_string()),
        3 => vec(pool_char(), 2..=4).prop_map(|v| v.into_iter().collect()),
        1 => Just("ﷺ".repeat(3)),
    ]
    .boxed()
}

/// current text as (char, Some(original byte start) while untouched)
type Tracked = Vec<(char, Option<usize>)>;

fn apply_model(cur: &Tracked, batch: &[Edit]) -> (Tracked, Vec<(std::ops::Range<usize>, String, u8)>) {
    // returns the new tracked text and the byte-range edits (in the coordinates of `cur`)
    let mut out: Tracked = Vec::new();
    let mut edits = Vec::new();
    let n = cur.len();
    let mut byte_of: Vec<usize> = Vec::with_capacity(n + 1);
    let mut b = 0;
    for (c, _) in cur {
        byte_of.push(b);
        b += c.len_utf8();
    }
    byte_of.push(b);
    let mut p = 0usize;
    let mut last_ins = false;
    for e in batch {
        let remaining = n - p;
        let ins = e.insert && !e.with.is_empty();
        if remaining == 0 && !ins {
            break;
        }
        let skip = ix(e.skip, remaining.min(4) + 1).min(remaining);
        if remaining - skip == 0 && !ins {
            break;
        }
        if ins && skip == 0 && last_ins {
            // two insertions at one point would be one insertion
            continue;
        }
        last_ins = ins;
        let len = if ins { 0 } else { 1 + ix(e.len, (remaining - skip).min(4)) };
        for i in p..p + skip {
            out.push(cur[i]);
        }
        let (s, t) = (p + skip, p + skip + len);
        for c in e.with.chars() {
            out.push((c, None));
        }
        edits.push((byte_of[s]..byte_of[t], e.with.clone(), e.api));
        p = t;
    }
    for i in p..n {
        out.push(cur[i]);
    }
    (out, edits)
}

fn text_of(t: &Tracked) -> String {
    t.iter().map(|(c, _)| *c).collect()
}

impl C08 {
    fn check_map(rep: &mut Report, buf: &InputBuffer, tracked: &Tracked, original: &str, stage: &str) -> bool {
        let cur = text_of(tracked);
        if buf.current() != cur {
            rep.fail("current-text", format!("{}: buffer holds {:?}, model {:?}", stage, buf.current(), cur));
            return false;
        }
        let mut bounds: Vec<usize> = cur.char_indices().map(|(b, _)| b).collect();
        bounds.push(cur.len());
        let mut prev = 0usize;
        let mut maps = Vec::with_capacity(bounds.len());
        for (ci, b) in bounds.iter().enumerate() {
            let m = buf.get_original_index(*b);
            if m < prev {
                rep.fail("monotone", format!("{}: map({}) = {} after {} (original {:?}, current {:?})", stage, b, m, prev, original, cur));
                return false;
            }
            if m > original.len() || !original.is_char_boundary(m) {
                rep.fail("boundary", format!("{}: map({}) = {} is not a character boundary of the original {:?} (current {:?})", stage, b, m, original, cur));
                return false;
            }
            if ci < tracked.len() {
                if let Some(o) = tracked[ci].1 {
                    let want = if ci == 0 { 0 } else { o };
                    if m != want {
                        rep.fail("identity", format!("{}: untouched character {:?} at current byte {} came from original byte {} but maps to {} (original {:?}, current {:?})", stage, tracked[ci].0, b, o, m, original, cur));
                        return false;
                    }
                }
            }
            prev = m;
            maps.push(m);
        }
        if maps[0] != 0 {
            rep.fail("anchor-start", format!("{}: map(0) = {} (original {:?}, current {:?})", stage, maps[0], original, cur));
            return false;
        }
        if *maps.last().unwrap() != original.len() {
            rep.fail("anchor-end", format!("{}: map(len) = {} but the original has {} bytes (original {:?}, current {:?})", stage, maps.last().unwrap(), original.len(), original, cur));
            return false;
        }
        // ranges
        for i in 0..bounds.len() {
            for j in i..bounds.len() {
                let r = bounds[i]..bounds[j];
                let to = buf.to_orig(r.clone());
                if to != (maps[i]..maps[j]) {
                    rep.fail("to-orig", format!("{}: to_orig({:?}) = {:?}, expected {:?}", stage, r, to, maps[i]..maps[j]));
                    return false;
                }
                if buf.orig_slice(r.clone()) != &original[maps[i]..maps[j]] {
                    rep.fail("orig-slice", format!("{}: orig_slice({:?}) = {:?}", stage, r, buf.orig_slice(r.clone())));
                    return false;
                }
                if buf.curr_slice(r.clone()) != &cur[r.clone()] {
                    rep.fail("curr-slice", format!("{}: curr_slice({:?})", stage, r));
                    return false;
                }
            }
        }
        true
    }
}

impl Property for C08 {
    type Case = Case;
    fn id(&self) -> &'static str {
        "C08"
    }
    fn rule(&self) -> &'static str {
        "cases: (a) the C01 product (dictionary x plugin configuration x texts x modes): begin_c/end_c of every morpheme (and sub-morpheme) must equal the \
         number of code points before its byte offsets and slicing by code points must give the surface; (b) edit histories on a bare InputBuffer: an \
         original of 1-40 pool characters (1-4 byte widths), 1-4 batches of sorted, non-overlapping, possibly adjacent replacements of 0-4 characters (0: an insertion) by \
         empty / shorter / equal / longer strings through all four editor entry points; after every batch and after build() every accessor of the offset map \
         is compared with a tracker model for every character boundary and every boundary range. Non-trivial: (a) a text whose normalised form differs from \
         the original; (b) >= 2 batches containing a deletion and an expansion over >= 2 byte widths."
    }
    fn assumptions(&self) -> Vec<&'static str> {
        vec![
            "'maps each unreplaced character to itself' is read as: its start maps to its own original start, except that position 0 is anchored to 0 (start-to-start wins after a leading deletion)",
            "edits are sorted, non-overlapping ranges on character boundaries, empty ranges (insertions) included, at most one insertion per point; batches that would empty the text are skipped",
        ]
    }
    fn strategy(&self, tier: Tier) -> BoxedStrategy<Case> {
        let dp = DicParams::small();
        let w = (world(dp, CfgParams::full()), vec(pieces_long(tier.pick(10, 30)), 1..=3)).prop_map(|((dic, cfg), texts)| Case::World { dic, cfg, texts });
        let edit = (any::<u16>(), any::<u16>(), edit_string(), 0u8..4, prop::bool::weighted(0.12)).prop_map(|(skip, len, with, api, insert)| Edit { skip, len, with, api, insert });
        let e = (vec(pool_char(), 1..=tier.pick(24, 40)).prop_map(|v| v.into_iter().collect::<String>()), vec(vec(edit, 1..=6), 1..=4), prop_oneof![2 => Just(0u8), 1 => 1u8..8])
            .prop_map(|(original, batches, age)| Case::Edits { original, batches, age });
        prop_oneof![1 => w, 3 => e].boxed()
    }
    fn cases_per_shard(&self, tier: Tier) -> u32 {
        tier.pick(6000, 150000)
    }
    fn sample(&self, case: &Case) -> Value {
        match case {
            Case::World { dic, cfg, texts } => {
                let keys = all_keys(dic);
                json!({"kind": "world", "texts": texts.iter().map(|t| render_pieces(&keys, t)).collect::<Vec<_>>(), "input_plugins": cfg.input, "path": cfg.path})
            }
            Case::Edits { .. } => serde_json::to_value(case).unwrap(),
        }
    }
    fn check(&self, case: &Case, ctx: &mut Ctx) -> Report {
        let mut rep = Report::default();
        match case {
            Case::World { dic, cfg, texts } => {
                let (dict, _) = match build_world(dic, cfg, ctx) {
                    Ok(x) => x,
                    Err(_) => {
                        rep.class("rejected");
                        return rep;
                    }
                };
                let keys = all_keys(dic);
                let mut out = sudachi::prelude::MorphemeList::empty(&dict);
                for t in texts {
                    let text = render_pieces(&keys, t);
                    if f7_guard(&mut rep, dic, cfg, &text, ctx.strict) {
                        continue;
                    }
                    let chars: Vec<char> = text.chars().collect();
                    let norm = normalized_text(&dict, &text).ok();
                    for mode in MODES {
                        let ml = match analyze(&dict, &text, mode, None) {
                            Ok(m) => m,
                            Err(_) => continue,
                        };
                        let mut one = |rep: &mut Report, b: usize, e: usize, bc: usize, ec: usize, surf: &str, what: &str| -> bool {
                            if b > text.len() || e > text.len() || !text.is_char_boundary(b) || !text.is_char_boundary(e) || b > e {
                                // C01's business; not judged here
                                return true;
                            }
                            let wb = text[..b].chars().count();
                            let we = text[..e].chars().count();
                            if bc != wb || ec != we {
                                rep.fail("codepoint-offsets", format!("text {:?} mode {} {}: bytes {}..{} are code points {}..{} but {}..{} reported", text, mode_name(mode), what, b, e, wb, we, bc, ec));
                                return false;
                            }
                            let s: String = chars[bc..ec].iter().collect();
                            if s != surf {
                                rep.fail("codepoint-slice", format!("text {:?} {}: text[{}:{}] by code points = {:?}, surface {:?}", text, what, bc, ec, s, surf));
                                return false;
                            }
                            true
                        };
                        for (i, m) in ml.iter().enumerate() {
                            if !one(&mut rep, m.begin(), m.end(), m.begin_c(), m.end_c(), &m.surface(), &format!("morpheme {}", i)) {
                                return rep;
                            }
                            for sm in [sudachi::analysis::Mode::A, sudachi::analysis::Mode::B] {
                                out.clear();
                                if let Ok(true) = m.split_into(sm, &mut out) {
                                    for (j, s) in out.iter().enumerate() {
                                        if !one(&mut rep, s.begin(), s.end(), s.begin_c(), s.end_c(), &s.surface(), &format!("morpheme {} split piece {}", i, j)) {
                                            return rep;
                                        }
                                    }
                                }
                            }
                        }
                        if let Some(n) = &norm {
                            if *n != text && ml.len() >= 1 {
                                rep.nontrivial = true;
                                rep.class("world:normalised-differs");
                            }
                        }
                    }
                }
                let _ = dict.grammar();
            }
            Case::Edits { original, batches, age } => {
                let gd = grammar_dict(ctx);
                let mut buf = InputBuffer::new();
                if age & 1 != 0 {
                    // an earlier, longer sentence on the same object
                    let prev = format!("{}𠮷éあa", "あ𠮷aé".repeat(original.chars().count() + 3));
                    buf.reset().push_str(&prev);
                    if buf.start_build().is_ok() {
                        let _ = buf.with_editor(|_b, mut ed| {
                            ed.replace_ref(0..3, "株式会社");
                            ed.replace_ref(7..8, "");
                            Ok(ed)
                        });
                        let _ = buf.with_editor(|_b, mut ed| {
                            ed.replace_ref(0..6, "");
                            Ok(ed)
                        });
                        let _ = buf.build(gd.grammar());
                    }
                    rep.class("edits:aged buffer");
                }
                if age & 2 != 0 {
                    // an earlier sentence whose rewrite was refused for its size
                    let prev = "㍿".repeat(5500);
                    buf.reset().push_str(&prev);
                    if buf.start_build().is_ok() {
                        let r = buf.with_editor(|_b, mut ed| {
                            for i in 0..5500 {
                                ed.replace_ref(i * 3..i * 3 + 3, "株式会社");
                            }
                            Ok(ed)
                        });
                        if r.is_ok() {
                            rep.fail("oversize-accepted", "a rewrite to 66,000 bytes was accepted".to_string());
                            return rep;
                        }
                    }
                    rep.class("edits:after a rejected rewrite");
                }
                buf.reset().push_str(original);
                if buf.start_build().is_err() {
                    rep.class("rejected");
                    return rep;
                }
                let mut tracked: Tracked = original.char_indices().map(|(b, c)| (c, Some(b))).collect();
                let mut applied = 0;
                let (mut had_del, mut had_exp) = (false, false);
                for (bi, batch) in batches.iter().enumerate() {
                    let (next, edits) = apply_model(&tracked, batch);
                    if next.is_empty() || edits.is_empty() {
                        continue;
                    }
                    if edits.iter().any(|(r, _, _)| r.is_empty()) {
                        rep.class("edits:insertion (empty replaced range)");
                    }
                    // known finding F32: after a leading removal the first surviving character is anchored to 0 in the
                    // stored map; an insertion in front of it in a later batch leaves it there although it is not first
                    if let (Some((_, Some(o))), Some((r, _, _))) = (tracked.first(), edits.first()) {
                        if *o > 0 && r.start == 0 && r.is_empty() && !ctx.strict {
                            rep.excluded = Some("F32");
                            return rep;
                        }
                    }
                    if age & 4 != 0 {
                        // the same edits in a batch whose edit function fails after recording them: the batch counts
                        // as not applied (the map is unchanged, later batches are not affected)
                        let r = buf.with_editor(|_b, mut ed| {
                            for (range, with, _api) in edits.iter() {
                                ed.replace_ref(range.clone(), with.as_str());
                            }
                            if edits.is_empty() {
                                Ok(ed)
                            } else {
                                Err(sudachi::error::SudachiError::NoOOVPluginProvided)
                            }
                        });
                        if r.is_ok() {
                            rep.fail("refused-batch-accepted", format!("batch {}: the edit function returned an error but with_editor reports success", bi));
                            return rep;
                        }
                        rep.class("edits:refused batch before a real one");
                        if !Self::check_map(&mut rep, &buf, &tracked, original, &format!("after the refused attempt of batch {}", bi)) {
                            return rep;
                        }
                    }
                    let r = buf.with_editor(|_b, mut ed| {
                        for (range, with, api) in edits.iter() {
                            let one = with.chars().count() == 1;
                            match (api, one, with.is_empty()) {
                                (1, true, _) => ed.replace_char(range.clone(), with.chars().next().unwrap()),
                                (2, _, _) => ed.replace_own(range.clone(), with.clone()),
                                (3, _, false) => {
                                    let mut it = with.chars();
                                    let c0 = it.next().unwrap();
                                    ed.replace_char_iter(range.clone(), c0, it)
                                }
                                _ => ed.replace_ref(range.clone(), with.as_str()),
                            }
                        }
                        Ok(ed)
                    });
                    if let Err(e) = r {
                        rep.fail("edit-error", format!("batch {}: {}", bi, e));
                        return rep;
                    }
                    for (range, with, _) in &edits {
                        if with.is_empty() {
                            had_del = true;
                        }
                        if with.len() > range.len() {
                            had_exp = true;
                        }
                    }
                    tracked = next;
                    applied += 1;
                    if !Self::check_map(&mut rep, &buf, &tracked, original, &format!("after batch {}", bi)) {
                        return rep;
                    }
                }
                if let Err(e) = buf.build(gd.grammar()) {
                    rep.fail("build-error", format!("{}", e));
                    return rep;
                }
                if !Self::check_map(&mut rep, &buf, &tracked, original, "after build") {
                    return rep;
                }
                // char-indexed accessors
                let cur = text_of(&tracked);
                let mut bounds: Vec<usize> = cur.char_indices().map(|(b, _)| b).collect();
                bounds.push(cur.len());
                for (ci, b) in bounds.iter().enumerate() {
                    if buf.to_curr_byte_idx(ci) != *b {
                        rep.fail("char-to-byte", format!("to_curr_byte_idx({}) = {} expected {}", ci, buf.to_curr_byte_idx(ci), b));
                        return rep;
                    }
                    if *b < cur.len() || true {
                        if buf.ch_idx(*b) != ci {
                            rep.fail("byte-to-char", format!("ch_idx({}) = {} expected {} (current {:?})", b, buf.ch_idx(*b), ci, cur));
                            return rep;
                        }
                    }
                    let m = buf.get_original_index(*b);
                    if buf.to_orig_byte_idx(ci) != m {
                        rep.fail("char-to-orig-byte", format!("to_orig_byte_idx({}) = {} expected {}", ci, buf.to_orig_byte_idx(ci), m));
                        return rep;
                    }
                    let oc = original[..m].chars().count();
                    if buf.to_orig_char_idx(ci) != oc {
                        rep.fail("char-to-orig-char", format!("to_orig_char_idx({}) = {} expected {} (original {:?}, current {:?})", ci, buf.to_orig_char_idx(ci), oc, original, cur));
                        return rep;
                    }
                }
                for i in 0..bounds.len() {
                    for j in i..bounds.len() {
                        if buf.curr_slice_c(i..j) != &cur[bounds[i]..bounds[j]] {
                            rep.fail("curr-slice-c", format!("curr_slice_c({}..{})", i, j));
                            return rep;
                        }
                        let (a, b) = (buf.get_original_index(bounds[i]), buf.get_original_index(bounds[j]));
                        if buf.orig_slice_c(i..j) != &original[a..b] {
                            rep.fail("orig-slice-c", format!("orig_slice_c({}..{})", i, j));
                            return rep;
                        }
                    }
                }
                let widths: std::collections::BTreeSet<usize> = original.chars().map(|c| c.len_utf8()).collect();
                if applied >= 2 && had_del && had_exp && widths.len() >= 2 {
                    rep.nontrivial = true;
                    rep.class("edits:>=2 batches, deletion+expansion");
                }
                if applied >= 1 {
                    rep.class("edits:applied");
                }
            }
        }
        rep
    }
}
