//! C17 — the character classes of a code point are the union of all definitions covering it.

use crate::engine::*;
use crate::model::chardef::*;
use proptest::collection::vec;
use proptest::prelude::*;
use proptest::sample::select;
use serde::{Deserialize, Serialize};
use serde_json::{json, Value};
use sudachi::dic::character_category::CharacterCategory;

#[derive(Clone, Debug, Serialize, Deserialize)]
pub struct Line {
    pub begin: u32,
    /// None: single code point
    pub end: Option<u32>,
    pub cats: Vec<String>,
    /// 0 none, 1 trailing comment, 2 comment line before, 3 category definition line before, 4-7 other spellings of the range (see render)
    pub deco: u8,
}

#[derive(Clone, Debug, Serialize, Deserialize)]
pub struct Case {
    pub lines: Vec<Line>,
    pub probes: Vec<u32>,
    /// check every scalar value instead of boundaries + probes
    #[serde(default)]
    pub all_scalars: bool,
}

pub struct C17;

const ANCHORS: &[u32] = &[0, 1, 0x30, 0x7F, 0x80, 0x7FF, 0x800, 0x3040, 0x30A0, 0xD7FE, 0xD7FF, 0xE000, 0xFFFF, 0x10000, 0x10FFFE, 0x10FFFF];

pub fn render(lines: &[Line]) -> String {
    let mut s = String::new();
    for l in lines {
        match l.deco {
            2 => s.push_str("# a comment line\n"),
            3 => s.push_str("DEFAULT 0 1 0\n"),
            _ => {}
        }
        // spellings of the same line: 4 = range end without the 0x prefix, 5 = lower-case hex digits,
        // 6 = indented, tabs between the columns, 7 = 4 and 5 together
        if l.deco == 6 {
            s.push_str("  \t");
        }
        let hex = |v: u32| if l.deco == 5 || l.deco == 7 { format!("{:04x}", v) } else { format!("{:04X}", v) };
        match l.end {
            Some(e) => s.push_str(&format!("0x{}..{}{}", hex(l.begin), if l.deco == 4 || l.deco == 7 { "" } else { "0x" }, hex(e))),
            None => s.push_str(&format!("0x{}", hex(l.begin))),
        }
        for c in &l.cats {
            s.push(if l.deco == 6 { '\t' } else { ' ' });
            s.push_str(c);
        }
        if l.deco == 1 {
            s.push_str(" # trailing comment KANJI");
        }
        s.push('\n');
    }
    s
}

fn line() -> BoxedStrategy<Line> {
    let point = (select(ANCHORS), -3i64..=3).prop_map(|(a, d)| (a as i64 + d).clamp(0, 0x110002) as u32);
    let cats = prop_oneof![
        10 => vec(select(vec!["DEFAULT", "SPACE", "KANJI", "SYMBOL", "NUMERIC", "ALPHA", "HIRAGANA", "KATAKANA", "KANJINUMERIC", "GREEK", "CYRILLIC", "USER1", "USER2", "USER3", "USER4"]), 1..=3),
        2 => Just(vec!["ALL"]),
        2 => vec(select(vec!["NOOOVBOW", "NOOOVBOW2", "KATAKANA", "ALL"]), 1..=2),
        1 => Just(vec!["NOSUCHCLASS"]),
    ]
    .prop_map(|v| v.into_iter().map(|s| s.to_string()).collect::<Vec<_>>());
    (point.clone(), prop::option::weighted(0.7, (point, 0u32..0x500)), cats, prop_oneof![4 => 0u8..4, 1 => 4u8..8], prop::bool::weighted(0.04))
        .prop_map(|(a, b, cats, deco, hostile)| {
            let fix = |x: u32, is_end: bool| -> u32 {
                if hostile {
                    return x;
                }
                // keep the line loadable: begin and end + 1 must be scalar values
                let mut x = x.min(0x10FFFE);
                if is_end && (0xD7FF..=0xDFFF).contains(&x) {
                    x = 0xD7FE;
                }
                if !is_end && (0xD800..=0xDFFF).contains(&x) {
                    x = 0xE000;
                }
                x
            };
            let cats: Vec<String> = if hostile { cats } else { cats.into_iter().filter(|c| c != "NOSUCHCLASS").collect::<Vec<_>>() };
            let cats = if cats.is_empty() { vec!["KANJI".to_string()] } else { cats };
            let (begin, end) = match b {
                None => (a, None),
                Some((p, len)) => {
                    // well ordered ranges; hostile lines may be reversed (must be rejected)
                    if hostile && len % 2 == 0 {
                        (a.max(p), Some(a.min(p)))
                    } else if len % 3 == 0 {
                        (a, Some(a.saturating_add(len)))
                    } else {
                        (a.min(p), Some(a.max(p)))
                    }
                }
            };
            let begin = fix(begin, false);
            let end = end.map(|e| fix(e, true).max(if hostile { 0 } else { begin }));
            let begin = if end.is_none() { fix(begin, true) } else { begin };
            Line { begin, end, cats, deco }
        })
        .boxed()
}

impl Property for C17 {
    type Case = Case;
    fn id(&self) -> &'static str {
        "C17"
    }
    fn rule(&self) -> &'static str {
        "case = a definition file of 0-25 range lines (plus two families of up to 600 ranges nested around one point / up to 1,100 consecutive blocks with pairwise distinct class sets, sizes drawn around 2^k) whose ends are anchor code points (0, 1, 0x7F/0x80, 0x7FF/0x800, 0xD7FE/0xD7FF, 0xE000, 0xFFFF/0x10000, 0x10FFFE/0x10FFFF) \
         +- 3, so that overlap, nesting, adjacency, duplicates and single points are frequent, 1-3 classes per line incl. ALL and the NOOOVBOW flags, comment and category \
         lines interleaved, some lines invalid (reversed range, surrogate end, unknown class). If the file loads, get_category_types(c) for every range end, its neighbours, \
         0, U+10FFFF and 64 random scalars (thorough: blocks over ALL scalar values) must equal the union of the classes of all lines containing c (DEFAULT if none), and the \
         range iterator must be ordered, gap free and agree with point queries. Non-trivial: the file loads and >= 2 lines overlap or touch."
    }
    fn strategy(&self, tier: Tier) -> BoxedStrategy<Case> {
        let probes = || vec(prop_oneof![0u32..0x110000, (select(ANCHORS), 0u32..8).prop_map(|(a, d)| a.saturating_add(d))], 64);
        let general = (vec(line(), 0..=tier.pick(14, 25)), probes(), prop::bool::weighted(tier.pick(0.0, 0.002))).prop_map(|(lines, probes, all_scalars)| Case { lines, probes, all_scalars });
        const NAMES: &[&str] = &["SPACE", "KANJI", "SYMBOL", "NUMERIC", "ALPHA", "HIRAGANA", "KATAKANA", "KANJINUMERIC", "GREEK", "CYRILLIC", "USER1", "USER2", "USER3", "USER4"];
        // many lines: n (around 2^k, up to 600) ranges nested around one point, all sharing one class and
        // each adding others; the ends differ, so the nesting depth changes at every boundary
        let nested = (crate::gen::boundary_len(600), select(vec![0x4100u32, 0x800, 0x10000, 0x30A0]), 1u32..4, 0u32..3, any::<u16>(), vec(line(), 0..4), probes()).prop_map(
            |(n, center, sl, sr, mask, mut extra, probes)| {
                let shared = NAMES[(mask as usize) % NAMES.len()];
                for i in 0..n as u32 {
                    let mut cats = vec![shared.to_string()];
                    if i % 5 == 0 {
                        cats.push(NAMES[((mask as usize) + 1 + (i as usize / 5)) % NAMES.len()].to_string());
                    }
                    extra.push(Line { begin: center.saturating_sub(i * sl), end: Some(center + i * sr), cats, deco: 0 });
                }
                Case { lines: extra, probes, all_scalars: false }
            },
        );
        // many distinct class sets: consecutive blocks, the i-th carrying the classes of the bits of i + 1
        let distinct = (crate::gen::boundary_len(1100), select(vec![0x1000u32, 0xF000, 0x20000]), 1u32..4, vec(line(), 0..4), probes()).prop_map(|(n, base, w, mut extra, probes)| {
            for i in 0..n as u32 {
                let bits = i + 1;
                let cats: Vec<String> = (0..NAMES.len()).filter(|b| bits >> b & 1 == 1).map(|b| NAMES[b].to_string()).collect();
                if cats.is_empty() {
                    continue;
                }
                let begin = base + i * w;
                extra.push(Line { begin, end: if w == 1 { None } else { Some(begin + w - 1) }, cats, deco: 0 });
            }
            Case { lines: extra, probes, all_scalars: false }
        });
        prop_oneof![60 => general, 1 => nested, 1 => distinct].boxed()
    }
    fn cases_per_shard(&self, tier: Tier) -> u32 {
        tier.pick(40000, 400000)
    }
    fn sample(&self, case: &Case) -> Value {
        json!({"char_def": render(&case.lines), "probes": case.probes.len(), "all_scalars": case.all_scalars})
    }
    fn check(&self, case: &Case, _ctx: &mut Ctx) -> Report {
        let mut rep = Report::default();
        let text = render(&case.lines);
        let cc = match guarded(|| CharacterCategory::from_reader(text.as_bytes())) {
            Ok(Ok(c)) => c,
            Ok(Err(_)) => {
                rep.class("file rejected");
                return rep;
            }
            Err(p) => {
                // loading is outside the statement (it speaks about files that load); a panic here
                // is recorded as a class, not judged
                let _ = p;
                rep.class("loader panicked (not judged)");
                return rep;
            }
        };
        let model = CharDefModel::parse(&text);
        if model.unknown_class_tokens {
            rep.class("file with a token that is not a class name (not judged)");
            return rep;
        }
        let mut pts: Vec<u32> = vec![0, 0x10FFFF];
        for l in &model.ranges {
            for p in [l.begin, l.end] {
                pts.push(p.saturating_sub(1));
                pts.push(p);
                pts.push(p + 1);
            }
        }
        pts.extend(case.probes.iter().cloned());
        let mut check_point = |rep: &mut Report, cp: u32| -> bool {
            let Some(c) = char::from_u32(cp) else { return true };
            let got = cc.get_category_types(c).bits();
            let want = model.classes(c);
            if got != want {
                rep.fail("classes", format!("U+{:04X}: reported {:?}, union of covering lines {:?}\n{}", cp, cat_names(got), cat_names(want), text));
                return false;
            }
            true
        };
        for p in &pts {
            if !check_point(&mut rep, *p) {
                return rep;
            }
        }
        if case.all_scalars {
            rep.class("all scalar values");
            for cp in 0..=0x10FFFFu32 {
                if !check_point(&mut rep, cp) {
                    return rep;
                }
            }
        }
        // iterator: ordered, gap free, consistent with point queries
        if !model.ranges.is_empty() {
            let mut next = 0u32;
            for (r, cat) in cc.iter() {
                let (a, b) = (r.start as u32, r.end as u32);
                if a != next {
                    // the surrogate gap is the only place where char ranges may jump
                    if !(next == 0xD800 && a == 0xE000) {
                        rep.fail("iter-gap", format!("iterator range starts at U+{:04X}, previous ended at U+{:04X}\n{}", a, next, text));
                        return rep;
                    }
                }
                if b < a {
                    rep.fail("iter-order", format!("iterator range U+{:04X}..U+{:04X}\n{}", a, b, text));
                    return rep;
                }
                for cp in [a, a + (b - a) / 2, b.saturating_sub(1)] {
                    if cp >= a && cp < b {
                        if let Some(c) = char::from_u32(cp) {
                            if cc.get_category_types(c) != cat {
                                rep.fail("iter-class", format!("iterator says U+{:04X} has {:?}, point query {:?}\n{}", cp, cat, cc.get_category_types(c), text));
                                return rep;
                            }
                        }
                    }
                }
                next = b;
            }
            if next != 0x10FFFF {
                rep.fail("iter-end", format!("iterator ends at U+{:04X}\n{}", next, text));
                return rep;
            }
        }
        // non-triviality: two lines overlap or touch
        let mut overlap = false;
        for (i, a) in model.ranges.iter().enumerate() {
            for b in model.ranges.iter().skip(i + 1) {
                if a.begin <= b.end.saturating_add(1) && b.begin <= a.end.saturating_add(1) {
                    overlap = true;
                }
            }
        }
        if overlap {
            rep.nontrivial = true;
            rep.class("overlapping or touching lines");
        }
        rep.class("file loaded");
        rep
    }
}
