//! Helpers shared by the property modules: building a loaded dictionary from models, running
//! an analysis, the partition predicate of C01.

use crate::engine::{guarded, Ctx};
use crate::model::cfg::CfgModel;
use crate::model::dic::{compile_model, load, make_config, Compiled, DicModel};
use sudachi::analysis::stateful_tokenizer::StatefulTokenizer;
use sudachi::analysis::Mode;
use sudachi::config::Config;
use sudachi::dic::dictionary::JapaneseDictionary;
use sudachi::dic::subset::InfoSubset;
use sudachi::error::SudachiError;
use sudachi::input_text::InputBuffer;
use sudachi::prelude::MorphemeList;

pub type Dict = JapaneseDictionary;
pub type MList<'a> = MorphemeList<&'a Dict>;

pub const MODES: [Mode; 3] = [Mode::A, Mode::B, Mode::C];

pub fn mode_of(i: u8) -> Mode {
    MODES[(i % 3) as usize]
}

pub fn mode_name(m: Mode) -> &'static str {
    match m {
        Mode::A => "A",
        Mode::B => "B",
        Mode::C => "C",
    }
}

pub enum BuildError {
    /// the compiler refused the generated sources
    Compile(String),
    /// the loader refused the configuration / dictionary
    Load(String),
    /// something panicked
    Panic(String),
}

impl BuildError {
    pub fn describe(&self) -> String {
        match self {
            BuildError::Compile(s) => format!("compile error: {}", s),
            BuildError::Load(s) => format!("load error: {}", s),
            BuildError::Panic(s) => format!("panic: {}", s),
        }
    }
}

pub fn build_config(cfg: &CfgModel, ctx: &Ctx) -> Result<Config, String> {
    make_config(&cfg.to_json(&ctx.dir))
}

pub fn build_world(dic: &DicModel, cfg: &CfgModel, ctx: &Ctx) -> Result<(Dict, Compiled), BuildError> {
    let compiled = match guarded(|| compile_model(dic)) {
        Ok(Ok(c)) => c,
        Ok(Err(e)) => return Err(BuildError::Compile(e)),
        Err(p) => return Err(BuildError::Panic(format!("compile: {}", p))),
    };
    let config = build_config(cfg, ctx).map_err(BuildError::Load)?;
    match guarded(|| load(&compiled, &config)) {
        Ok(Ok(d)) => Ok((d, compiled)),
        Ok(Err(e)) => Err(BuildError::Load(format!("{}", e))),
        Err(p) => Err(BuildError::Panic(format!("load: {}", p))),
    }
}

pub fn analyze<'a>(dict: &'a Dict, text: &str, mode: Mode, subset: Option<InfoSubset>) -> Result<MList<'a>, SudachiError> {
    // two equivalent ways to obtain a tokenizer for (mode, subset): created in the mode, or (for texts of odd
    // byte length and modes A / B) created in mode C and switched after the field request was made
    let late = mode != Mode::C && text.len() % 2 == 1;
    let mut tok = StatefulTokenizer::new(dict, if late { Mode::C } else { mode });
    if let Some(s) = subset {
        tok.set_subset(s);
    }
    if late {
        tok.set_mode(mode);
    }
    tok.reset().push_str(text);
    tok.do_tokenize()?;
    let mut ml = MorphemeList::empty(dict);
    ml.collect_results(&mut tok)?;
    Ok(ml)
}

/// The text after the configured input-text plugins ran (None: a plugin / the buffer refused)
pub fn normalized_text(dict: &Dict, text: &str) -> Result<String, SudachiError> {
    use sudachi::analysis::stateless_tokenizer::DictionaryAccess;
    let mut ib = InputBuffer::new();
    ib.reset().push_str(text);
    ib.start_build()?;
    for p in dict.input_text_plugins() {
        p.rewrite(&mut ib)?;
    }
    Ok(ib.current().to_string())
}

#[derive(Clone, Debug, PartialEq, Eq)]
pub struct Span {
    pub begin: usize,
    pub end: usize,
}

/// C01 partition predicate over one morpheme list. Returns Err(clause, detail).
pub fn check_partition(text: &str, ml: &MList) -> Result<Vec<Span>, (String, String)> {
    let mut spans = Vec::with_capacity(ml.len());
    let mut prev_end = 0usize;
    let mut concat = String::with_capacity(text.len());
    for (i, m) in ml.iter().enumerate() {
        let (b, e) = (m.begin(), m.end());
        if i == 0 && b != 0 {
            return Err(("first-begin".into(), format!("first morpheme begins at {}", b)));
        }
        if b != prev_end {
            return Err(("contiguous".into(), format!("morpheme {} begins at {} but previous ended at {}", i, b, prev_end)));
        }
        if e < b {
            return Err(("order".into(), format!("morpheme {} has end {} < begin {}", i, e, b)));
        }
        if e > text.len() {
            return Err(("range".into(), format!("morpheme {} ends at {} > len {}", i, e, text.len())));
        }
        if !text.is_char_boundary(b) || !text.is_char_boundary(e) {
            return Err(("char-boundary".into(), format!("morpheme {} range {}..{} is not on char boundaries", i, b, e)));
        }
        let surf = m.surface();
        if &*surf != &text[b..e] {
            return Err(("surface".into(), format!("morpheme {} surface {:?} != text[{}..{}] {:?}", i, &*surf, b, e, &text[b..e])));
        }
        concat.push_str(&surf);
        prev_end = e;
        spans.push(Span { begin: b, end: e });
    }
    if !ml.is_empty() && prev_end != text.len() {
        return Err(("last-end".into(), format!("last morpheme ends at {} but text has {} bytes", prev_end, text.len())));
    }
    if !ml.is_empty() && concat != text {
        return Err(("concat".into(), "concatenated surfaces differ from the input".into()));
    }
    Ok(spans)
}

pub fn err_kind(e: &SudachiError) -> &'static str {
    match e {
        SudachiError::InputTooLong(_, _) => "InputTooLong",
        SudachiError::EosBosDisconnect => "EosBosDisconnect",
        _ => "other",
    }
}

/// strips context wrappers
pub fn root_err(e: &SudachiError) -> &SudachiError {
    match e {
        SudachiError::ErrWithContext { cause, .. } => root_err(cause),
        x => x,
    }
}


/// Calls every public accessor of every morpheme (and of every on-demand sub-morpheme).
/// Returns a checksum so that nothing is optimised away.
pub fn consume_all(dict: &Dict, ml: &MList, list_cost: bool) -> usize {
    use sudachi::analysis::Mode;
    let mut acc = 0usize;
    let mut out = MorphemeList::empty(dict);
    let one = |m: &sudachi::analysis::morpheme::Morpheme<&Dict>| -> usize {
        let mut a = 0usize;
        a = a.wrapping_add((m.begin() + m.end() + m.begin_c() + m.end_c()) as usize);
        a = a.wrapping_add((m.surface().len()) as usize);
        a = a.wrapping_add((m.part_of_speech().len()) as usize);
        a = a.wrapping_add((m.part_of_speech_id() as usize) as usize);
        a = a.wrapping_add((m.dictionary_form().len() + m.normalized_form().len() + m.reading_form().len()) as usize);
        a = a.wrapping_add((m.is_oov() as usize) as usize);
        a = a.wrapping_add((m.word_id().as_raw() as usize) as usize);
        a = a.wrapping_add(m.dictionary_id() as usize);
        a = a.wrapping_add((m.synonym_group_ids().len()) as usize);
        a = a.wrapping_add(m.total_cost() as usize);
        a = a.wrapping_add((m.index()) as usize);
        let wi = m.get_word_info();
        a = a.wrapping_add((wi.surface().len() + wi.head_word_length() + wi.a_unit_split().len() + wi.b_unit_split().len() + wi.word_structure().len()) as usize);
        a = a.wrapping_add(wi.dictionary_form_word_id() as usize);
        a = a.wrapping_add((format!("{:?}", m).len()) as usize);
        a
    };
    acc = acc.wrapping_add(ml.len());
    if list_cost {
        // only meaningful for unsplit (mode C) lists: split nodes carry i32::MAX placeholders
        acc = acc.wrapping_add(ml.get_internal_cost() as usize);
    }
    acc = acc.wrapping_add((ml.surface().len()) as usize);
    for m in ml.iter() {
        acc = acc.wrapping_add(one(&m));
        for sm in [Mode::A, Mode::B] {
            out.clear();
            if let Ok(true) = m.split_into(sm, &mut out) {
                for s in out.iter() {
                    acc = acc.wrapping_add(one(&s));
                }
            }
        }
    }
    acc
}

/// Input class of known finding F7 (the cumulative path cost is an i32): the largest step the lattice can take
/// (largest |word cost| + largest |connection cost|) times an upper bound of the number of tokens of the text
/// (characters of the normalised text: at most 18 per input character, at most 65,536) reaches 2^31.
/// Ordinary costs (a few thousand) never get there; dictionaries with costs at the ends of i16 do for texts of
/// tens of thousands of tokens.
pub fn f7_class(dic: &DicModel, cfg: &CfgModel, text: &str) -> bool {
    use crate::model::cfg::OovPlugin;
    let mut w: i64 = 0;
    for d in 0..dic.num_dics() {
        for e in dic.dic(d) {
            w = w.max((e.cost as i64).abs());
        }
    }
    for p in &cfg.oov {
        match p {
            OovPlugin::Simple { cost, .. } | OovPlugin::Regex { cost, .. } => w = w.max(cost.abs()),
            OovPlugin::Mecab { unkdef, .. } => {
                for line in crate::model::cfg::read_src("unk.def", unkdef).lines() {
                    if let Some(c) = line.split(',').nth(3).and_then(|x| x.trim().parse::<i64>().ok()) {
                        w = w.max(c.abs());
                    }
                }
            }
        }
    }
    let mut c: i64 = dic.matrix.lines.iter().map(|l| (l.2 as i64).abs()).max().unwrap_or(0);
    if cfg.inhibit.as_ref().map(|v| !v.is_empty()).unwrap_or(false) {
        c = c.max(i16::MAX as i64);
    }
    let tokens = (text.chars().count() as i64 * 18 + 2).min(65_536);
    (w + c) * tokens >= i32::MAX as i64
}

/// marks the report as excluded (class F7) and returns true if `text` must not be analysed with this world
pub fn f7_guard(rep: &mut crate::engine::Report, dic: &DicModel, cfg: &CfgModel, text: &str, strict: bool) -> bool {
    if !strict && f7_class(dic, cfg, text) {
        rep.excluded = Some("F7");
        return true;
    }
    false
}

/// input class of known finding F12 (JoinNumeric never terminates): numeral joining is configured
/// and some dictionary word made only of NUMERIC (or only of KANJINUMERIC) characters has a
/// normalised form that contains ',' or '.'
pub fn f12_class(dic: &DicModel, cfg: &CfgModel) -> bool {
    use crate::model::cfg::PathPlugin;
    use crate::model::chardef::{KANJINUMERIC, NUMERIC};
    if !cfg.path.iter().any(|p| matches!(p, PathPlugin::JoinNumeric { .. })) {
        return false;
    }
    let cd = chardef_of(&cfg.chardef);
    for d in 0..dic.num_dics() {
        for e in dic.dic(d) {
            if e.normalized.contains(',') || e.normalized.contains('.') {
                let all = e.key.chars().fold(u32::MAX, |a, c| a & cd.classes(c));
                if all & (NUMERIC | KANJINUMERIC) != 0 {
                    return true;
                }
            }
        }
    }
    false
}

thread_local! {
    static CHARDEF_CACHE: std::cell::RefCell<std::collections::BTreeMap<u64, std::rc::Rc<crate::model::chardef::CharDefModel>>> = std::cell::RefCell::new(Default::default());
}

/// parsed reference model of a char.def source (cached per thread)
pub fn chardef_of(src: &crate::model::cfg::FileSrc) -> std::rc::Rc<crate::model::chardef::CharDefModel> {
    use crate::model::cfg::{read_src, FileSrc};
    let key = match src {
        FileSrc::Shipped => 1,
        FileSrc::TestRes => 2,
        FileSrc::Text(t) => crate::engine::digest(t) | 4,
    };
    CHARDEF_CACHE.with(|c| {
        let mut c = c.borrow_mut();
        if c.len() > 64 {
            c.clear();
        }
        c.entry(key).or_insert_with(|| std::rc::Rc::new(crate::model::chardef::CharDefModel::parse(&read_src("char.def", src)))).clone()
    })
}
