//! Helpers shared by the property modules: building a loaded dictionary from models, running
//! an analysis, the partition predicate of C01.

use crate::engine::{guarded, Ctx};
use crate::model::cfg::CfgModel;
use crate::model::dic::{compile_model, load, make_config, Compiled, DicModel};
use sudachi::analysis::stateful_tokenizer::StatefulTokenizer;
use sudachi::analysis::Mode;
use sudachi::config::Config;
use sudachi::dic::dictionary::JapaneseDictionary;
use sudachi::dic::subset::InfoSubset;
use sudachi::error::SudachiError;
use sudachi::input_text::InputBuffer;
use sudachi::prelude::MorphemeList;

pub type Dict = JapaneseDictionary;
pub type MList<'a> = MorphemeList<&'a Dict>;

pub const MODES: [Mode; 3] = [Mode::A, Mode::B, Mode::C];

pub fn mode_of(i: u8) -> Mode {
    MODES[(i % 3) as usize]
}

pub fn mode_name(m: Mode) -> &'static str {
    match m {
        Mode::A => "A",
        Mode::B => "B",
        Mode::C => "C",
    }
}

pub enum BuildError {
    /// the compiler refused the generated sources
    Compile(String),
    /// the loader refused the configuration / dictionary
    Load(String),
    /// something panicked
    Panic(String),
}

impl BuildError {
    pub fn describe(&self) -> String {
        match self {
            BuildError::Compile(s) => format!("compile error: {}", s),
            BuildError::Load(s) => format!("load error: {}", s),
            BuildError::Panic(s) => format!("panic: {}", s),
        }
    }
}

pub fn build_config(cfg: &CfgModel, ctx: &Ctx) -> Result<Config, String> {
    make_config(&cfg.to_json(&ctx.dir))
}

pub fn build_world(dic: &DicModel, cfg: &CfgModel, ctx: &Ctx) -> Result<(Dict, Compiled), BuildError> {
    let compiled = match guarded(|| compile_model(dic)) {
        Ok(Ok(c)) => c,
        Ok(Err(e)) => return Err(BuildError::Compile(e)),
        Err(p) => return Err(BuildError::Panic(format!("compile: {}", p))),
    };
    let config = build_config(cfg, ctx).map_err(BuildError::Load)?;
    match guarded(|| load(&compiled, &config)) {
        Ok(Ok(d)) => Ok((d, compiled)),
        Ok(Err(e)) => Err(BuildError::Load(format!("{}", e))),
        Err(p) => Err(BuildError::Panic(format!("load: {}", p))),
    }
}

pub fn analyze<'a>(dict: &'a Dict, text: &str, mode: Mode, subset: Option<InfoSubset>) -> Result<MList<'a>, SudachiError> {
    let mut tok = StatefulTokenizer::new(dict, mode);
    if let Some(s) = subset {
        tok.set_subset(s);
    }
    tok.reset().push_str(text);
    tok.do_tokenize()?;
    let mut ml = MorphemeList::empty(dict);
    ml.collect_results(&mut tok)?;
    Ok(ml)
}

/// The text after the configured input-text plugins ran (None: a plugin / the buffer refused)
pub fn normalized_text(dict: &Dict, text: &str) -> Result<String, SudachiError> {
    use sudachi::analysis::stateless_tokenizer::DictionaryAccess;
    let mut ib = InputBuffer::new();
    ib.reset().push_str(text);
    ib.start_build()?;
    for p in dict.input_text_plugins() {
        p.rewrite(&mut ib)?;
    }
    Ok(ib.current().to_string())
}

#[derive(Clone, Debug, PartialEq, Eq)]
pub struct Span {
    pub begin: usize,
    pub end: usize,
}

/// C01 partition predicate over one morpheme list. Returns Err(clause, detail).
pub fn check_partition(text: &str, ml: &MList) -> Result<Vec<Span>, (String, String)> {
    let mut spans = Vec::with_capacity(ml.len());
    let mut prev_end = 0usize;
    let mut concat = String::with_capacity(text.len());
    for (i, m) in ml.iter().enumerate() {
        let (b, e) = (m.begin(), m.end());
        if i == 0 && b != 0 {
            return Err(("first-begin".into(), format!("first morpheme begins at {}", b)));
        }
        if b != prev_end {
            return Err(("contiguous".into(), format!("morpheme {} begins at {} but previous ended at {}", i, b, prev_end)));
        }
        if e < b {
            return Err(("order".into(), format!("morpheme {} has end {} < begin {}", i, e, b)));
        }
        if e > text.len() {
            return Err(("range".into(), format!("morpheme {} ends at {} > len {}", i, e, text.len())));
        }
        if !text.is_char_boundary(b) || !text.is_char_boundary(e) {
            return Err(("char-boundary".into(), format!("morpheme {} range {}..{} is not on char boundaries", i, b, e)));
        }
        let surf = m.surface();
        if &*surf != &text[b..e] {
            return Err(("surface".into(), format!("morpheme {} surface {:?} != text[{}..{}] {:?}", i, &*surf, b, e, &text[b..e])));
        }
        concat.push_str(&surf);
        prev_end = e;
        spans.push(Span { begin: b, end: e });
    }
    if !ml.is_empty() && prev_end != text.len() {
        return Err(("last-end".into(), format!("last morpheme ends at {} but text has {} bytes", prev_end, text.len())));
    }
    if !ml.is_empty() && concat != text {
        return Err(("concat".into(), "concatenated surfaces differ from the input".into()));
    }
    Ok(spans)
}

pub fn err_kind(e: &SudachiError) -> &'static str {
    match e {
        SudachiError::InputTooLong(_, _) => "InputTooLong",
        SudachiError::EosBosDisconnect => "EosBosDisconnect",
        _ => "other",
    }
}

/// strips context wrappers
pub fn root_err(e: &SudachiError) -> &SudachiError {
    match e {
        SudachiError::ErrWithContext { cause, .. } => root_err(cause),
        x => x,
    }
}
