//! Numerals: structures that render to Japanese numeral notation together with the decimal
//! rendering of their value, and a three-valued classifier for arbitrary strings over the numeral
//! alphabet (well formed with value / definitely malformed / not judged).

use serde::{Deserialize, Serialize};

pub const KANJI_DIGITS: [char; 10] = ['〇', '一', '二', '三', '四', '五', '六', '七', '八', '九'];

pub fn digit_value(c: char) -> Option<u8> {
    if c.is_ascii_digit() {
        return Some(c as u8 - b'0');
    }
    KANJI_DIGITS.iter().position(|k| *k == c).map(|p| p as u8)
}

pub fn small_unit(c: char) -> Option<u32> {
    match c {
        '十' => Some(1),
        '百' => Some(2),
        '千' => Some(3),
        _ => None,
    }
}

pub fn large_unit(c: char) -> Option<u32> {
    match c {
        '万' => Some(4),
        '億' => Some(8),
        '兆' => Some(12),
        _ => None,
    }
}

pub fn is_numeral_char(c: char) -> bool {
    digit_value(c).is_some() || small_unit(c).is_some() || large_unit(c).is_some() || c == ',' || c == '.'
}

fn unit_char(e: u32) -> char {
    match e {
        1 => '十',
        2 => '百',
        3 => '千',
        4 => '万',
        8 => '億',
        _ => '兆',
    }
}

/// 0 arabic, 1 kanji digits, 2 mixed (alternating by position and selector)
fn render_digits(d: &[u8], style: u8, sel: u32) -> String {
    d.iter()
        .enumerate()
        .map(|(i, x)| {
            let kanji = match style % 3 {
                0 => false,
                1 => true,
                _ => (sel >> (i % 32)) & 1 == 1,
            };
            if kanji {
                KANJI_DIGITS[*x as usize]
            } else {
                (b'0' + *x) as char
            }
        })
        .collect()
}

fn digits_str(d: &[u8]) -> String {
    d.iter().map(|x| (b'0' + *x) as char).collect()
}

fn trim_frac(f: &[u8]) -> String {
    let mut s = digits_str(f);
    while s.ends_with('0') {
        s.pop();
    }
    s
}

#[derive(Clone, Debug, Serialize, Deserialize, PartialEq)]
pub enum Section {
    /// 1..=9999 written with positional digits (no leading zero)
    Pos(u16),
    /// 1..=9999 written with 千 百 十; `omit_one`: a leading 1 before a unit is left out (千 instead of 一千)
    Small(u16, bool),
    /// the highest section only: an arbitrarily long digit string without leading zero
    Long(Vec<u8>),
    /// 1000..=9999 written with a thousands separator (1,000万; 259万2,300)
    Grouped(u16),
}

#[derive(Clone, Debug, Serialize, Deserialize, PartialEq)]
pub enum Num {
    /// plain digits (leading zeros allowed), optional fraction
    Plain { digits: Vec<u8>, frac: Option<Vec<u8>>, style: u8, sel: u32 },
    /// 1-3 digits, then groups of exactly three, optional fraction
    Comma { first: Vec<u8>, groups: Vec<[u8; 3]>, frac: Option<Vec<u8>> },
    /// sections with strictly descending large units (12, 8, 4, 0), optional fraction after a positional last section
    Units { sections: Vec<(Section, u32)>, frac: Option<Vec<u8>>, style: u8, sel: u32 },
    /// d.dd x small unit and / or large unit
    FracUnit { int: Vec<u8>, frac: Vec<u8>, small: Option<u32>, large: Option<u32> },
    /// a number with thousands separators times a small unit and / or a large unit (1,234千; 123,456百万: amounts of financial statements)
    CommaUnit { first: Vec<u8>, groups: Vec<[u8; 3]>, small: Option<u32>, large: Option<u32> },
}

fn small_form(v: u16, omit_one: bool, style: u8, sel: u32) -> String {
    let mut s = String::new();
    let ds = [(v / 1000) % 10, (v / 100) % 10, (v / 10) % 10, v % 10];
    for (i, d) in ds.iter().enumerate() {
        if *d == 0 {
            continue;
        }
        let unit = 3 - i as u32;
        if unit == 0 {
            s.push_str(&render_digits(&[*d as u8], style, sel >> i));
        } else {
            if !(*d == 1 && omit_one) {
                s.push_str(&render_digits(&[*d as u8], style, sel >> i));
            }
            s.push(unit_char(unit));
        }
    }
    s
}

fn to_digits(v: u16) -> Vec<u8> {
    v.to_string().bytes().map(|b| b - b'0').collect()
}

impl Num {
    /// (notation, expected normalised form)
    pub fn render(&self) -> (String, String) {
        match self {
            Num::Plain { digits, frac, style, sel } => {
                let mut s = render_digits(digits, *style, *sel);
                let mut e = digits_str(digits);
                if let Some(f) = frac {
                    s.push('.');
                    s.push_str(&render_digits(f, *style, *sel >> 7));
                    let t = trim_frac(f);
                    if !t.is_empty() {
                        e.push('.');
                        e.push_str(&t);
                    }
                }
                (s, e)
            }
            Num::Comma { first, groups, frac } => {
                let mut s = digits_str(first);
                let mut e = digits_str(first);
                for g in groups {
                    s.push(',');
                    s.push_str(&digits_str(g));
                    e.push_str(&digits_str(g));
                }
                if let Some(f) = frac {
                    s.push('.');
                    s.push_str(&digits_str(f));
                    let t = trim_frac(f);
                    if !t.is_empty() {
                        e.push('.');
                        e.push_str(&t);
                    }
                }
                (s, e)
            }
            Num::Units { sections, frac, style, sel } => {
                let mut s = String::new();
                // expected: highest section digits followed by 4-digit blocks
                let top_unit = sections[0].1;
                let top_digits: Vec<u8> = match &sections[0].0 {
                    Section::Pos(v) | Section::Small(v, _) | Section::Grouped(v) => to_digits(*v),
                    Section::Long(d) => d.clone(),
                };
                let mut blocks: Vec<(u32, u16)> = Vec::new();
                for (k, (sec, unit)) in sections.iter().enumerate() {
                    let piece = match sec {
                        Section::Pos(v) => render_digits(&to_digits(*v), *style, *sel >> k),
                        Section::Small(v, o) => small_form(*v, *o, *style, *sel >> k),
                        Section::Long(d) => render_digits(d, *style, *sel >> k),
                        Section::Grouped(v) => {
                            let d = to_digits(*v);
                            format!("{},{}", render_digits(&d[..1], *style, *sel >> k), render_digits(&d[1..], *style, *sel >> (k + 1)))
                        }
                    };
                    s.push_str(&piece);
                    if *unit > 0 {
                        s.push(unit_char(*unit));
                    }
                    if k > 0 {
                        let v = match sec {
                            Section::Pos(v) | Section::Small(v, _) | Section::Grouped(v) => *v,
                            Section::Long(_) => 0,
                        };
                        blocks.push((*unit, v));
                    }
                }
                let mut e = digits_str(&top_digits);
                let mut u = top_unit;
                while u > 0 {
                    u -= 4;
                    let v = blocks.iter().find(|(bu, _)| *bu == u).map(|(_, v)| *v).unwrap_or(0);
                    e.push_str(&format!("{:04}", v));
                }
                if let Some(f) = frac {
                    s.push('.');
                    s.push_str(&render_digits(f, *style, *sel >> 9));
                    let t = trim_frac(f);
                    if !t.is_empty() {
                        e.push('.');
                        e.push_str(&t);
                    }
                }
                (s, e)
            }
            Num::CommaUnit { first, groups, small, large } => {
                let mut s = digits_str(first);
                let mut e = digits_str(first);
                for g in groups {
                    s.push(',');
                    s.push_str(&digits_str(g));
                    e.push_str(&digits_str(g));
                }
                for u in [small, large].into_iter().flatten() {
                    s.push(unit_char(*u));
                    e.push_str(&"0".repeat(*u as usize));
                }
                (s, e)
            }
            Num::FracUnit { int, frac, small, large } => {
                let mut s = format!("{}.{}", digits_str(int), digits_str(frac));
                let mut k = 0usize;
                if let Some(u) = small {
                    s.push(unit_char(*u));
                    k += *u as usize;
                }
                if let Some(u) = large {
                    s.push(unit_char(*u));
                    k += *u as usize;
                }
                // shift the decimal point k places to the right
                let mut all: Vec<u8> = int.clone();
                all.extend(frac.iter());
                let point = int.len() + k;
                let e = if point >= all.len() {
                    let mut t = digits_str(&all);
                    t.push_str(&"0".repeat(point - all.len()));
                    t
                } else {
                    let mut t = digits_str(&all[..point]);
                    let f = trim_frac(&all[point..]);
                    if !f.is_empty() {
                        t.push('.');
                        t.push_str(&f);
                    }
                    t
                };
                // a value has no leading zeros (the integer part of a fraction-times-unit is not a "plain digit string")
                let e = {
                    let t = e.trim_start_matches('0');
                    if t.is_empty() || t.starts_with('.') {
                        format!("0{}", t)
                    } else {
                        t.to_string()
                    }
                };
                (s, e)
            }
        }
    }

    /// fraction x unit whose integer part is zero: input class of finding F11
    pub fn is_f11_class(&self) -> bool {
        matches!(self, Num::FracUnit { int, .. } if int.iter().all(|d| *d == 0))
    }
}

#[derive(Clone, Debug, PartialEq)]
pub enum Class {
    /// definitely well formed, with the decimal rendering of its value
    Well(String),
    /// definitely malformed (reason)
    Malformed(&'static str),
    /// not judged
    Unknown,
}

/// Classifies a string over the numeral alphabet (after normalisation: ASCII digits, kanji digits,
/// units, ',' and '.'). Deliberately conservative: only shapes named by the property statement are
/// called malformed, only the simple shapes are evaluated.
pub fn classify(s: &str) -> Class {
    let cs: Vec<char> = s.chars().collect();
    if cs.is_empty() || !cs.iter().all(|c| is_numeral_char(*c)) {
        return Class::Unknown;
    }
    // ---- definite malformations ------------------------------------------------------------
    if cs[0] == '.' || cs[0] == ',' {
        return Class::Malformed("leading separator");
    }
    if *cs.last().unwrap() == '.' {
        return Class::Malformed("dangling point");
    }
    if *cs.last().unwrap() == ',' {
        return Class::Malformed("trailing separator");
    }
    for w in cs.windows(2) {
        if (w[0] == '.' || w[0] == ',') && (w[1] == '.' || w[1] == ',') {
            return Class::Malformed("double separator");
        }
        if (w[0] == '.' || w[0] == ',') && digit_value(w[1]).is_none() {
            return Class::Malformed("separator before a unit");
        }
    }
    // large units strictly descending, each with something before it
    let mut last_large: Option<u32> = None;
    let mut section_start = 0usize;
    for (i, c) in cs.iter().enumerate() {
        if let Some(u) = large_unit(*c) {
            if i == section_start {
                return Class::Malformed("large unit with nothing before it");
            }
            if let Some(p) = last_large {
                // a repeated large unit (百万3万) is left unjudged: its sum reading is consistent
                if u > p {
                    return Class::Malformed("large units out of order");
                }
            }
            last_large = Some(u);
            section_start = i + 1;
        }
    }
    // small units strictly descending inside a section
    let mut last_small: Option<u32> = None;
    for c in cs.iter() {
        if large_unit(*c).is_some() {
            last_small = None;
        } else if let Some(u) = small_unit(*c) {
            if let Some(p) = last_small {
                // a repeated unit scaled by a fraction (十0.三十 = 13) has a consistent sum reading: not judged
                if u > p {
                    return Class::Malformed("small units out of order");
                }
            }
            last_small = Some(u);
        }
    }
    // a plain digit run directly after a unit that has more digits than fit under that unit (十555, 千5000,
    // 一万50000): the run reaches the magnitude of the unit in front of it, so the units are out of order whatever the reading.
    // Runs that begin with a zero are not judged.
    {
        let mut cap: Option<u32> = None;
        let mut run = 0u32;
        let mut judged = false;
        for (i, c) in cs.iter().enumerate() {
            if let Some(u) = small_unit(*c) {
                cap = Some(u);
                run = 0;
            } else if let Some(u) = large_unit(*c) {
                // only a large unit multiplied by ONE non-zero digit (一万, 5億) is judged: after 十万 a run of five
                // digits still lies below the section (十万11230 = 111230 is a consistent sum)
                let single = i >= 1 && digit_value(cs[i - 1]).map(|d| d != 0).unwrap_or(false) && (i == 1 || large_unit(cs[i - 2]).is_some());
                cap = if single { Some(u) } else { None };
                run = 0;
            } else if let Some(d) = digit_value(*c) {
                if run == 0 {
                    judged = d != 0;
                }
                run += 1;
                if let Some(k) = cap {
                    if judged && run > k {
                        return Class::Malformed("more digits after a unit than fit under it");
                    }
                }
            } else {
                cap = None;
                run = 0;
            }
        }
    }
    // points: at most one per section, digits on both sides (checked above for the right side)
    {
        let mut seen = false;
        for c in cs.iter() {
            if large_unit(*c).is_some() || small_unit(*c).is_some() {
                // every unit starts a new number that may carry its own fraction (1.5百万1.5千20)
                seen = false;
            }
            if *c == '.' {
                if seen {
                    return Class::Malformed("second point");
                }
                seen = true;
            }
        }
    }
    // commas: only judged for unit-less strings
    let has_unit = cs.iter().any(|c| small_unit(*c).is_some() || large_unit(*c).is_some());
    if !has_unit {
        let (int, frac) = match s.split_once('.') {
            Some((a, b)) => (a, Some(b)),
            None => (s, None),
        };
        if let Some(f) = frac {
            if f.contains(',') {
                return Class::Malformed("separator in the fraction");
            }
        }
        let val = |t: &str| -> String { t.chars().filter_map(digit_value).map(|d| (b'0' + d) as char).collect() };
        let mut e;
        if int.contains(',') {
            let groups: Vec<&str> = int.split(',').collect();
            let g0 = groups[0].chars().count();
            if g0 == 0 || g0 > 3 {
                return Class::Malformed("bad first group");
            }
            if val(groups[0]).chars().all(|c| c == '0') {
                return Class::Malformed("first group is zero");
            }
            for g in &groups[1..] {
                if g.chars().count() != 3 {
                    return Class::Malformed("group is not three digits");
                }
            }
            e = groups.iter().map(|g| val(g)).collect::<String>();
        } else {
            e = val(int);
        }
        if let Some(f) = frac {
            let mut t = val(f);
            while t.ends_with('0') {
                t.pop();
            }
            if !t.is_empty() {
                e.push('.');
                e.push_str(&t);
            }
        }
        return Class::Well(e);
    }
    Class::Unknown
}
