//! Reference implementations of the three bundled input-text plugins, written from the
//! property statement (C07) and the plugin documentation. They also report the byte length of
//! the text after every single edit, in edit order ("running length"), which C03 needs.

use crate::model::chardef::{CharDefModel, HIRAGANA, KANJI, KATAKANA};
use std::collections::{BTreeMap, BTreeSet};
use unicode_normalization::UnicodeNormalization;

#[derive(Clone, Debug, Default)]
pub struct RewriteTable {
    pub replace: BTreeMap<String, String>,
    pub exempt: BTreeSet<char>,
    pub max_key_chars: usize,
}

impl RewriteTable {
    pub fn parse(text: &str) -> RewriteTable {
        let mut t = RewriteTable::default();
        for line in text.lines() {
            let line = line.trim();
            if line.is_empty() || line.starts_with('#') {
                continue;
            }
            let cols: Vec<&str> = line.split_whitespace().collect();
            if cols.len() == 1 {
                if let Some(c) = cols[0].chars().next() {
                    t.exempt.insert(c);
                }
            } else if cols.len() == 2 {
                t.max_key_chars = t.max_key_chars.max(cols[0].chars().count());
                t.replace.entry(cols[0].to_string()).or_insert(cols[1].to_string());
            }
        }
        t
    }
}

#[derive(Clone, Debug, Default)]
pub struct NormResult {
    pub text: String,
    /// maximum byte length of the text reached after any prefix of the edits of this stage
    pub max_running_len: usize,
    /// characters of general category Lt were seen (lower-casing of those is not pinned down)
    pub saw_titlecase: bool,
}

pub fn is_titlecase(c: char) -> bool {
    // the 31 code points of general category Lt
    matches!(c as u32,
        0x01C5 | 0x01C8 | 0x01CB | 0x01F2 | 0x1F88..=0x1F8F | 0x1F98..=0x1F9F | 0x1FA8..=0x1FAF | 0x1FBC | 0x1FCC | 0x1FFC)
}

/// one character, no table: lower-case, then NFKC unless exempt
pub fn norm_char(c: char, exempt: bool) -> String {
    let lower: String = if c.is_uppercase() { c.to_lowercase().collect() } else { c.to_string() };
    if exempt {
        lower
    } else {
        lower.nfkc().collect()
    }
}

/// DefaultInputTextPlugin: scanning left to right, the longest table key starting at a position
/// is replaced by its value, any other character is lower-cased and, unless exempt, NFKC-normalised.
pub fn normalize_default(t: &RewriteTable, text: &str) -> NormResult {
    let chars: Vec<(usize, char)> = text.char_indices().collect();
    let mut out = String::with_capacity(text.len());
    let mut running = text.len() as isize;
    let mut max_running = text.len();
    let mut saw_tc = false;
    let mut i = 0;
    while i < chars.len() {
        // longest key starting here
        let mut best: Option<(usize, &String)> = None;
        let maxk = t.max_key_chars.min(chars.len() - i);
        for k in (1..=maxk).rev() {
            let b = chars[i].0;
            let e = if i + k < chars.len() { chars[i + k].0 } else { text.len() };
            if let Some(v) = t.replace.get(&text[b..e]) {
                best = Some((k, v));
                break;
            }
        }
        if let Some((k, v)) = best {
            let b = chars[i].0;
            let e = if i + k < chars.len() { chars[i + k].0 } else { text.len() };
            out.push_str(v);
            running += v.len() as isize - (e - b) as isize;
            max_running = max_running.max(running.max(0) as usize);
            i += k;
            continue;
        }
        let c = chars[i].1;
        if is_titlecase(c) {
            saw_tc = true;
        }
        let n = norm_char(c, t.exempt.contains(&c));
        if n.len() != c.len_utf8() || !n.starts_with(c) {
            running += n.len() as isize - c.len_utf8() as isize;
            max_running = max_running.max(running.max(0) as usize);
        }
        out.push_str(&n);
        i += 1;
    }
    NormResult { text: out, max_running_len: max_running, saw_titlecase: saw_tc }
}

/// ProlongedSoundMarkPlugin: every maximal run of >= 2 mark characters becomes the symbol
pub fn normalize_psm(marks: &[char], symbol: &str, text: &str) -> NormResult {
    let set: BTreeSet<char> = marks.iter().cloned().collect();
    let mut out = String::with_capacity(text.len());
    let mut run: Vec<char> = Vec::new();
    let mut running = text.len() as isize;
    let mut max_running = text.len();
    let mut flush = |run: &mut Vec<char>, out: &mut String| {
        if run.len() >= 2 {
            out.push_str(symbol);
            let bytes: usize = run.iter().map(|c| c.len_utf8()).sum();
            running += symbol.len() as isize - bytes as isize;
            max_running = max_running.max(running.max(0) as usize);
        } else {
            for c in run.iter() {
                out.push(*c);
            }
        }
        run.clear();
    };
    for c in text.chars() {
        if set.contains(&c) {
            run.push(c);
        } else {
            flush(&mut run, &mut out);
            out.push(c);
        }
    }
    flush(&mut run, &mut out);
    NormResult { text: out, max_running_len: max_running, saw_titlecase: false }
}

/// IgnoreYomiganaPlugin: KANJI-class char, left bracket, 1..=max reading-class chars, right
/// bracket => the bracket group (bracket..bracket) is removed; leftmost, non-overlapping.
pub fn normalize_yomigana(cd: &CharDefModel, left: &[char], right: &[char], max_len: usize, text: &str) -> NormResult {
    let chars: Vec<char> = text.chars().collect();
    let mut out = String::with_capacity(text.len());
    let mut i = 0;
    while i < chars.len() {
        let c = chars[i];
        let mut matched = 0usize;
        if cd.classes(c) & KANJI != 0 && i + 1 < chars.len() && left.contains(&chars[i + 1]) {
            // greedy count of reading chars, the regex backtracks to any count in 1..=max that is
            // followed by a right bracket
            let mut n = 0;
            while i + 2 + n < chars.len() && n < max_len && cd.classes(chars[i + 2 + n]) & (HIRAGANA | KATAKANA) != 0 {
                n += 1;
            }
            let mut k = n;
            while k >= 1 {
                if i + 2 + k < chars.len() && right.contains(&chars[i + 2 + k]) {
                    matched = k + 2; // brackets + reading
                    break;
                }
                k -= 1;
            }
        }
        out.push(c);
        if matched > 0 {
            i += 1 + matched;
        } else {
            i += 1;
        }
    }
    NormResult { max_running_len: text.len(), text: out, saw_titlecase: false }
}
