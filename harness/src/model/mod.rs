pub mod cfg;
pub mod chardef;
pub mod dic;
pub mod norm;
pub mod numeral;
