pub mod cfg;
pub mod dic;
