//! Configuration model: plugin stacks with generated or shipped definition files.

use crate::model::dic::Pos;
use serde::{Deserialize, Serialize};
use serde_json::{json, Value};
use std::path::{Path, PathBuf};

pub const REPO_RESOURCES: &str = "/repo/resources";
pub const TEST_RESOURCES: &str = "/repo/sudachi/tests/resources";

#[derive(Clone, Debug, Serialize, Deserialize, PartialEq, Eq)]
pub enum FileSrc {
    /// /repo/resources/<name>
    Shipped,
    /// /repo/sudachi/tests/resources/<name>
    TestRes,
    /// generated content
    Text(String),
}

#[derive(Clone, Debug, Serialize, Deserialize, PartialEq, Eq)]
pub enum InputPlugin {
    Default { rewrite: FileSrc },
    Psm { marks: Vec<char>, replacement: Option<String> },
    Yomigana { left: Vec<char>, right: Vec<char>, max_len: usize },
}

#[derive(Clone, Debug, Serialize, Deserialize, PartialEq, Eq)]
pub enum OovPlugin {
    Mecab { chardef: FileSrc, unkdef: FileSrc, user_pos: Option<bool> },
    Regex {
        pos: Pos,
        left: i64,
        right: i64,
        cost: i64,
        regex: String,
        max_length: Option<usize>,
        strict: Option<bool>,
        user_pos: Option<bool>,
    },
    Simple { pos: Pos, left: i64, right: i64, cost: i64, user_pos: Option<bool> },
}

#[derive(Clone, Debug, Serialize, Deserialize, PartialEq, Eq)]
pub enum PathPlugin {
    JoinNumeric { enable_normalize: Option<bool> },
    JoinKatakana { pos: Pos, min_length: usize },
}

#[derive(Clone, Debug, Serialize, Deserialize, PartialEq, Eq)]
pub struct CfgModel {
    pub chardef: FileSrc,
    pub input: Vec<InputPlugin>,
    pub oov: Vec<OovPlugin>,
    pub inhibit: Option<Vec<(i64, i64)>>,
    pub path: Vec<PathPlugin>,
}

/// marker in the last component of a `Pos`: the configuration gets an array of another length
/// (`POS_CUT` + digit k: the first k components; `POS_EXT`: seven components)
pub const POS_CUT: &str = "\u{1}cut";
pub const POS_EXT: &str = "\u{1}ext";

pub fn pos_json(pos: &Pos) -> Value {
    if let Some(k) = pos[5].strip_prefix(POS_CUT) {
        let k: usize = k.parse().unwrap_or(5).min(5);
        return json!(pos[..k].to_vec());
    }
    if pos[5] == POS_EXT {
        let mut v: Vec<String> = pos[..5].to_vec();
        v.push("*".into());
        v.push("*".into());
        return json!(v);
    }
    json!(pos)
}

/// true if the part of speech is written as an array that does not have exactly six components
pub fn pos_malformed(pos: &Pos) -> bool {
    pos[5].starts_with(POS_CUT) || pos[5] == POS_EXT
}

impl CfgModel {
    pub fn minimal(pos: &Pos) -> CfgModel {
        CfgModel {
            chardef: FileSrc::Shipped,
            input: vec![],
            oov: vec![OovPlugin::Simple { pos: pos.clone(), left: 0, right: 0, cost: 30000, user_pos: Some(true) }],
            inhibit: None,
            path: vec![],
        }
    }
    pub fn has_fallback(&self) -> bool {
        matches!(self.oov.last(), Some(OovPlugin::Simple { .. }))
    }
    pub fn has_path_rewrite(&self) -> bool {
        !self.path.is_empty()
    }
}

fn user_pos_json(v: &mut Value, up: &Option<bool>) {
    if let Some(b) = up {
        v["userPOS"] = json!(if *b { "allow" } else { "forbid" });
    }
}

/// content-addressed file in `dir`
pub fn put_file(dir: &Path, stem: &str, content: &str) -> PathBuf {
    let d = crate::engine::digest(content);
    let p = dir.join(format!("{}-{:016x}", stem, d));
    if !p.exists() {
        let _ = std::fs::create_dir_all(dir);
        std::fs::write(&p, content).expect("write scratch file");
    }
    p
}

pub fn resolve_src(dir: &Path, name: &str, src: &FileSrc) -> PathBuf {
    match src {
        FileSrc::Shipped => PathBuf::from(REPO_RESOURCES).join(name),
        FileSrc::TestRes => PathBuf::from(TEST_RESOURCES).join(name),
        FileSrc::Text(t) => put_file(dir, name, t),
    }
}

pub fn read_src(name: &str, src: &FileSrc) -> String {
    match src {
        FileSrc::Shipped => std::fs::read_to_string(PathBuf::from(REPO_RESOURCES).join(name)).expect("shipped resource"),
        FileSrc::TestRes => std::fs::read_to_string(PathBuf::from(TEST_RESOURCES).join(name)).expect("test resource"),
        FileSrc::Text(t) => t.clone(),
    }
}

const NS: &str = "com.worksap.nlp.sudachi.";

impl CfgModel {
    /// Writes the definition files into `dir` and returns the JSON configuration (absolute paths)
    pub fn to_json(&self, dir: &Path) -> Value {
        let p2s = |p: PathBuf| p.to_string_lossy().into_owned();
        let mut input = Vec::new();
        for p in &self.input {
            input.push(match p {
                InputPlugin::Default { rewrite } => json!({
                    "class": format!("{}DefaultInputTextPlugin", NS),
                    "rewriteDef": p2s(resolve_src(dir, "rewrite.def", rewrite)),
                }),
                InputPlugin::Psm { marks, replacement } => {
                    let mut v = json!({
                        "class": format!("{}ProlongedSoundMarkPlugin", NS),
                        "prolongedSoundMarks": marks.iter().map(|c| c.to_string()).collect::<Vec<_>>(),
                    });
                    if let Some(r) = replacement {
                        v["replacementSymbol"] = json!(r);
                    }
                    v
                }
                InputPlugin::Yomigana { left, right, max_len } => json!({
                    "class": format!("{}IgnoreYomiganaPlugin", NS),
                    "leftBrackets": left.iter().map(|c| c.to_string()).collect::<Vec<_>>(),
                    "rightBrackets": right.iter().map(|c| c.to_string()).collect::<Vec<_>>(),
                    "maxYomiganaLength": max_len,
                }),
            });
        }
        let mut oov = Vec::new();
        for p in &self.oov {
            oov.push(match p {
                OovPlugin::Mecab { chardef, unkdef, user_pos } => {
                    let mut v = json!({
                        "class": format!("{}MeCabOovPlugin", NS),
                        "charDef": p2s(resolve_src(dir, "char.def", chardef)),
                        "unkDef": p2s(resolve_src(dir, "unk.def", unkdef)),
                    });
                    user_pos_json(&mut v, user_pos);
                    v
                }
                OovPlugin::Regex { pos, left, right, cost, regex, max_length, strict, user_pos } => {
                    let mut v = json!({
                        "class": format!("{}RegexOovProvider", NS),
                        "leftId": left, "rightId": right, "cost": cost,
                        "regex": regex,
                    });
                    // the key has two spellings (`pos` and its alias `oovPOS`): both are used, chosen by the data
                    v[if (*left + *cost) % 2 == 0 { "oovPOS" } else { "pos" }] = pos_json(pos);
                    if let Some(m) = max_length {
                        v["maxLength"] = json!(m);
                    }
                    if let Some(s) = strict {
                        v["boundaries"] = json!(if *s { "strict" } else { "relaxed" });
                    }
                    user_pos_json(&mut v, user_pos);
                    v
                }
                OovPlugin::Simple { pos, left, right, cost, user_pos } => {
                    let mut v = json!({
                        "class": format!("{}SimpleOovPlugin", NS),
                        "oovPOS": pos_json(pos),
                        "leftId": left, "rightId": right, "cost": cost,
                    });
                    user_pos_json(&mut v, user_pos);
                    v
                }
            });
        }
        let mut conn = Vec::new();
        if let Some(pairs) = &self.inhibit {
            conn.push(json!({
                "class": format!("{}InhibitConnectionPlugin", NS),
                "inhibitPair": pairs.iter().map(|(a, b)| json!([a, b])).collect::<Vec<_>>(),
            }));
        }
        let mut path = Vec::new();
        for p in &self.path {
            path.push(match p {
                PathPlugin::JoinNumeric { enable_normalize } => {
                    let mut v = json!({ "class": format!("{}JoinNumericPlugin", NS) });
                    if let Some(b) = enable_normalize {
                        v["enableNormalize"] = json!(b);
                    }
                    v
                }
                PathPlugin::JoinKatakana { pos, min_length } => json!({
                    "class": format!("{}JoinKatakanaOovPlugin", NS),
                    "oovPOS": pos,
                    "minLength": min_length,
                }),
            });
        }
        json!({
            "characterDefinitionFile": p2s(resolve_src(dir, "char.def", &self.chardef)),
            "connectionCostPlugin": conn,
            "inputTextPlugin": input,
            "oovProviderPlugin": oov,
            "pathRewritePlugin": path,
        })
    }
}
