//! Dictionary model: the generated source of truth (CSV rows, matrix text) that oracles read,
//! its renderer, and the route through the real compiler / loader.

use serde::{Deserialize, Serialize};
use std::fmt::Write as _;
use sudachi::config::{Config, ConfigBuilder};
use sudachi::dic::build::DictBuilder;
use sudachi::dic::dictionary::JapaneseDictionary;
use sudachi::dic::storage::{Storage, SudachiDicData};
use sudachi::dic::DictionaryLoader;

pub type Pos = [String; 6];

pub fn pos(a: &str, b: &str, c: &str, d: &str, e: &str, f: &str) -> Pos {
    [a.into(), b.into(), c.into(), d.into(), e.into(), f.into()]
}

pub fn pos_from_str(s: &str) -> Pos {
    let v: Vec<&str> = s.split(',').collect();
    assert_eq!(v.len(), 6, "pos {}", s);
    pos(v[0], v[1], v[2], v[3], v[4], v[5])
}

pub const POS_NOUN: &str = "名詞,普通名詞,一般,*,*,*";
pub const POS_NUM: &str = "名詞,数詞,*,*,*,*";
pub const POS_SYM: &str = "補助記号,一般,*,*,*,*";
pub const POS_VERB: &str = "動詞,一般,*,*,五段-カ行,終止形-一般";
pub const POS_PART: &str = "助詞,格助詞,*,*,*,*";
pub const POS_PROPER: &str = "名詞,固有名詞,地名,一般,*,*";
pub const POS_USER1: &str = "被子植物門,双子葉植物綱,ムクロジ目,ミカン科,ミカン属,スダチ";
pub const POS_USER2: &str = "ユーザ,品詞,二,*,*,*";
pub const POS_USER3: &str = "ユーザ,品詞,三,*,*,*";
pub const POS_PLUGIN: &str = "プラグイン,品詞,*,*,*,*";
/// components left blank (spreadsheet-made user dictionaries): a blank component is the empty string, not `*`
pub const POS_BLANKS: &str = "果物,柑橘,,,,";
pub const POS_BLANKS2: &str = "果物,柑橘,*,,*,";

/// A reference to another word as written in the CSV
#[derive(Clone, Debug, Serialize, Deserialize, PartialEq, Eq)]
pub enum WRef {
    /// plain number: a line of the system dictionary (or, for `dic_form` of a user dictionary,
    /// of the same user dictionary — see DESIGN C05)
    Sys(u32),
    /// `U`-prefixed number: a line of the user dictionary being compiled
    User(u32),
    /// inline `surface,pos*6,reading`
    Inline { surface: String, pos: Pos, reading: String },
}

#[derive(Clone, Debug, Serialize, Deserialize, PartialEq, Eq)]
pub struct Entry {
    pub key: String,
    pub left: i16,
    pub right: i16,
    pub cost: i16,
    pub headword: String,
    pub pos: Pos,
    pub reading: String,
    pub normalized: String,
    pub dic_form: Option<WRef>,
    /// 'A' | 'B' | 'C' | '*'
    pub mode: char,
    pub split_a: Vec<WRef>,
    pub split_b: Vec<WRef>,
    pub word_structure: Vec<WRef>,
    pub synonyms: Vec<u32>,
    /// 0: literal, 1: first char of the key as \uXXXX (BMP) or \u{X}, 2: every char of the key as \u{X}
    #[serde(default)]
    pub esc: u8,
    /// spelling variants of the row that denote the same entry (all accepted by the lexicon reader):
    /// bits 0-1 mode column: 0 upper case, 1 lower case, 2 alias (`*` for C, `BC` for B), 3 padded with blanks;
    /// bit 2: empty lists written as an empty field instead of `*`; bit 3: the optional 19th column left out when
    /// there are no synonym groups; bit 4: an ignored 20th column; bit 5: first character of headword / reading /
    /// normalised form / a POS component written as \u{X}; bit 6: every field quoted
    #[serde(default)]
    pub syntax: u8,
}

impl Entry {
    pub fn simple(key: &str, left: i16, right: i16, cost: i16, pos: &Pos) -> Entry {
        Entry {
            key: key.to_string(),
            left,
            right,
            cost,
            headword: key.to_string(),
            pos: pos.clone(),
            reading: key.to_string(),
            normalized: key.to_string(),
            dic_form: None,
            mode: 'A',
            split_a: vec![],
            split_b: vec![],
            word_structure: vec![],
            synonyms: vec![],
            esc: 0,
            syntax: 0,
        }
    }
    pub fn indexed(&self) -> bool {
        self.left >= 0
    }
}

/// Connection matrix as text: header `nl nr`, then `left right cost` lines (last write wins,
/// unlisted cells are 0)
#[derive(Clone, Debug, Serialize, Deserialize, PartialEq, Eq)]
pub struct Matrix {
    pub nl: u16,
    pub nr: u16,
    pub lines: Vec<(u16, u16, i16)>,
}

impl Matrix {
    /// The text form. Equivalent spellings the reader accepts (blank lines before the header and between
    /// lines, tabs / runs of blanks as separators, blanks around a line, CRLF) are chosen from the content
    /// itself (sum of the numbers mod 8), so that a matrix always renders the same way.
    pub fn render(&self) -> String {
        let style = (self.nl as usize + self.nr as usize * 3 + self.lines.iter().map(|(l, r, c)| *l as usize + *r as usize + (*c as i32 + 40000) as usize).sum::<usize>()) % 8;
        // the reader splits at Unicode white space: ideographic space, no-break space and NEL are separators too
        let sep = match style {
            1 | 5 => "\t",
            2 => "  ",
            6 => "\u{3000}",
            7 => "\u{a0}\u{85}",
            _ => " ",
        };
        let eol = if style == 3 || style == 5 { "\r\n" } else { "\n" };
        let mut s = String::new();
        if style == 4 || style == 5 {
            s.push_str(eol);
            s.push_str("  ");
            s.push_str(eol);
        }
        write!(s, "{}{}{}{}", self.nl, sep, self.nr, eol).unwrap();
        for (i, (l, r, c)) in self.lines.iter().enumerate() {
            if style >= 4 && i % 3 == 1 {
                s.push_str(eol);
            }
            if style == 2 {
                write!(s, " {}{}{}{}{} {}", l, sep, r, sep, c, eol).unwrap();
            } else {
                write!(s, "{}{}{}{}{}{}", l, sep, r, sep, c, eol).unwrap();
            }
        }
        s
    }
    /// cost of connecting a left node whose right id is `l` with a right node whose left id is `r`
    pub fn cost(&self, l: u16, r: u16) -> i16 {
        let mut v = 0;
        for (a, b, c) in &self.lines {
            if *a == l && *b == r {
                v = *c;
            }
        }
        v
    }
    pub fn dense(&self) -> Vec<Vec<i16>> {
        let mut m = vec![vec![0i16; self.nr as usize]; self.nl as usize];
        for (a, b, c) in &self.lines {
            if (*a as usize) < m.len() && (*b as usize) < self.nr as usize {
                m[*a as usize][*b as usize] = *c;
            }
        }
        m
    }
}

#[derive(Clone, Debug, Serialize, Deserialize, PartialEq, Eq)]
pub struct DicModel {
    pub matrix: Matrix,
    pub system: Vec<Entry>,
    pub users: Vec<Vec<Entry>>,
}

impl DicModel {
    pub fn dic(&self, d: usize) -> &Vec<Entry> {
        if d == 0 {
            &self.system
        } else {
            &self.users[d - 1]
        }
    }
    pub fn num_dics(&self) -> usize {
        1 + self.users.len()
    }
    /// resolve a reference written in dictionary `d` to (dictionary, line)
    pub fn resolve(&self, d: usize, r: &WRef) -> Option<(usize, u32)> {
        match r {
            WRef::Sys(n) => Some((0, *n)),
            WRef::User(n) => Some((d, *n)),
            WRef::Inline { surface, pos, reading } => {
                // the builder looks in the dictionary being compiled first, then in the system one
                let find = |dd: usize| -> Option<(usize, u32)> {
                    for (i, e) in self.dic(dd).iter().enumerate() {
                        let rd = if dd == d { &e.reading } else { &e.reading };
                        let key = if dd == d { &e.key } else { &e.headword };
                        if key == surface && &e.pos == pos && rd == reading {
                            return Some((dd, i as u32));
                        }
                    }
                    None
                };
                find(d).or_else(|| if d != 0 { find(0) } else { None })
            }
        }
    }
}

fn csv_field(s: &str) -> String {
    let needs = s.is_empty() && false
        || s.contains(',')
        || s.contains('"')
        || s.contains('\n')
        || s.contains('\r');
    if needs {
        format!("\"{}\"", s.replace('"', "\"\""))
    } else {
        s.to_string()
    }
}

fn esc_char(c: char, braces: bool) -> String {
    if !braces && (c as u32) <= 0xFFFF {
        format!("\\u{:04X}", c as u32)
    } else {
        format!("\\u{{{:X}}}", c as u32)
    }
}

fn render_key(e: &Entry, s: &str) -> String {
    match e.esc {
        1 => {
            let mut it = s.chars();
            match it.next() {
                Some(c) => format!("{}{}", esc_char(c, false), it.as_str()),
                None => String::new(),
            }
        }
        2 => s.chars().map(|c| esc_char(c, true)).collect(),
        _ => s.to_string(),
    }
}

pub fn render_ref(r: &WRef) -> String {
    match r {
        WRef::Sys(n) => format!("{}", n),
        WRef::User(n) => format!("U{}", n),
        WRef::Inline { surface, pos, reading } => {
            format!("{},{},{}", surface, pos.join(","), reading)
        }
    }
}

fn render_refs(v: &[WRef]) -> String {
    if v.is_empty() {
        "*".to_string()
    } else {
        v.iter().map(render_ref).collect::<Vec<_>>().join("/")
    }
}

pub fn render_entry(e: &Entry) -> String {
    let sy = e.syntax;
    let esc_first = |s: &str| -> String {
        if sy & 32 == 0 || s == "*" {
            return s.to_string();
        }
        let mut it = s.chars();
        match it.next() {
            Some(c) if c != '\\' => format!("{}{}", esc_char(c, true), it.as_str()),
            _ => s.to_string(),
        }
    };
    let empty = if sy & 4 != 0 { "" } else { "*" };
    let list = |v: &[WRef]| if v.is_empty() { empty.to_string() } else { render_refs(v) };
    let mut f: Vec<String> = Vec::with_capacity(20);
    f.push(render_key(e, &e.key));
    f.push(e.left.to_string());
    f.push(e.right.to_string());
    f.push(e.cost.to_string());
    f.push(if e.headword == e.key { render_key(e, &e.headword) } else { esc_first(&e.headword) });
    for (i, p) in e.pos.iter().enumerate() {
        f.push(if i == 1 { esc_first(p) } else { p.clone() });
    }
    f.push(esc_first(&e.reading));
    f.push(esc_first(&e.normalized));
    f.push(match &e.dic_form {
        None => "*".to_string(),
        Some(r) => render_ref(r),
    });
    f.push(match (sy & 3, e.mode) {
        (1, m) if m != '*' => m.to_ascii_lowercase().to_string(),
        (2, 'C') => "*".to_string(),
        (2, 'B') => "BC".to_string(),
        (3, m) => format!(" {} ", m),
        (_, m) => m.to_string(),
    });
    f.push(list(&e.split_a));
    f.push(list(&e.split_b));
    f.push(list(&e.word_structure));
    if e.synonyms.is_empty() {
        if sy & 8 == 0 {
            f.push(empty.to_string());
        }
    } else {
        f.push(e.synonyms.iter().map(|x| x.to_string()).collect::<Vec<_>>().join("/"));
    }
    if sy & 16 != 0 && f.len() == 19 {
        f.push("ignored".to_string());
    }
    if sy & 64 != 0 {
        f.iter().map(|x| format!("\"{}\"", x.replace('"', "\"\""))).collect::<Vec<_>>().join(",")
    } else {
        f.iter().map(|x| csv_field(x)).collect::<Vec<_>>().join(",")
    }
}

pub fn render_csv(entries: &[Entry]) -> String {
    let mut s = String::new();
    for e in entries {
        s.push_str(&render_entry(e));
        s.push('\n');
    }
    s
}

pub const COMPILE_TIME: u64 = 1_600_000_000;

pub fn fixed_time() -> std::time::SystemTime {
    std::time::UNIX_EPOCH + std::time::Duration::from_secs(COMPILE_TIME)
}

pub fn compile_system_text(matrix: &str, csv: &str) -> Result<Vec<u8>, String> {
    let mut b = DictBuilder::new_system();
    b.set_compile_time(fixed_time());
    b.read_conn(matrix.as_bytes()).map_err(|e| format!("read_conn: {}", e))?;
    b.read_lexicon(csv.as_bytes()).map_err(|e| format!("read_lexicon: {}", e))?;
    b.resolve().map_err(|e| format!("resolve: {}", e))?;
    let mut out = Vec::new();
    b.compile(&mut out).map_err(|e| format!("compile: {}", e))?;
    Ok(out)
}

pub fn compile_user_text(system: &[u8], csv: &str) -> Result<Vec<u8>, String> {
    let loaded = DictionaryLoader::read_system_dictionary(system)
        .map_err(|e| format!("read_system: {}", e))?
        .to_loaded()
        .ok_or_else(|| "system dictionary has no grammar".to_string())?;
    let mut b = DictBuilder::new_user(&loaded);
    b.set_compile_time(fixed_time());
    b.read_lexicon(csv.as_bytes()).map_err(|e| format!("read_lexicon(user): {}", e))?;
    b.resolve().map_err(|e| format!("resolve(user): {}", e))?;
    let mut out = Vec::new();
    b.compile(&mut out).map_err(|e| format!("compile(user): {}", e))?;
    Ok(out)
}

#[derive(Clone)]
pub struct Compiled {
    pub system: Vec<u8>,
    pub users: Vec<Vec<u8>>,
}

pub fn compile_model(m: &DicModel) -> Result<Compiled, String> {
    let system = compile_system_text(&m.matrix.render(), &render_csv(&m.system))?;
    let mut users = Vec::new();
    for u in &m.users {
        users.push(compile_user_text(&system, &render_csv(u))?);
    }
    Ok(Compiled { system, users })
}

pub fn make_config(json: &serde_json::Value) -> Result<Config, String> {
    let bytes = serde_json::to_vec(json).unwrap();
    Ok(ConfigBuilder::from_bytes(&bytes).map_err(|e| format!("config: {}", e))?.build())
}

pub fn load(c: &Compiled, cfg: &Config) -> Result<JapaneseDictionary, sudachi::error::SudachiError> {
    let mut data = SudachiDicData::new(Storage::Owned(c.system.clone()));
    for u in &c.users {
        data.add_user(Storage::Owned(u.clone()));
    }
    JapaneseDictionary::from_cfg_storage(cfg, data)
}
