//! Reference model of char.def: range lines -> union of classes (independent of the loader).

pub const CATS: &[(&str, u32)] = &[
    ("DEFAULT", 1 << 0),
    ("SPACE", 1 << 1),
    ("KANJI", 1 << 2),
    ("SYMBOL", 1 << 3),
    ("NUMERIC", 1 << 4),
    ("ALPHA", 1 << 5),
    ("HIRAGANA", 1 << 6),
    ("KATAKANA", 1 << 7),
    ("KANJINUMERIC", 1 << 8),
    ("GREEK", 1 << 9),
    ("CYRILLIC", 1 << 10),
    ("USER1", 1 << 11),
    ("USER2", 1 << 12),
    ("USER3", 1 << 13),
    ("USER4", 1 << 14),
    ("NOOOVBOW", 1 << 30),
    ("NOOOVBOW2", 1 << 31),
    ("ALL", 0b00111111_11111111_11111111_11111111),
];

pub const DEFAULT: u32 = 1;
pub const KANJI: u32 = 1 << 2;
pub const NUMERIC: u32 = 1 << 4;
pub const ALPHA: u32 = 1 << 5;
pub const HIRAGANA: u32 = 1 << 6;
pub const KATAKANA: u32 = 1 << 7;
pub const KANJINUMERIC: u32 = 1 << 8;
pub const GREEK: u32 = 1 << 9;
pub const CYRILLIC: u32 = 1 << 10;
pub const NOOOVBOW: u32 = 1 << 30;
pub const NOOOVBOW2: u32 = 1 << 31;

pub fn cat_bits(name: &str) -> Option<u32> {
    CATS.iter().find(|(n, _)| *n == name).map(|(_, b)| *b)
}

pub fn cat_names(bits: u32) -> Vec<&'static str> {
    CATS.iter().filter(|(n, b)| *n != "ALL" && bits & *b != 0).map(|(n, _)| *n).collect()
}

#[derive(Clone, Debug)]
pub struct RangeLine {
    pub begin: u32,
    /// inclusive
    pub end: u32,
    pub cats: u32,
}

#[derive(Clone, Debug, Default)]
pub struct CharDefModel {
    /// some range line lists a token that is not one of the class names
    pub unknown_class_tokens: bool,
    pub ranges: Vec<RangeLine>,
    /// (name, invoke, group, length)
    pub categories: Vec<(String, bool, bool, u32)>,
}

impl CharDefModel {
    /// Lenient parser of the documented syntax (only used on files the generator produced or
    /// that ship with the repository)
    pub fn parse(text: &str) -> CharDefModel {
        let mut m = CharDefModel::default();
        for line in text.lines() {
            let line = line.trim();
            if line.is_empty() || line.starts_with('#') {
                continue;
            }
            let cols: Vec<&str> = line.split_whitespace().collect();
            if line.starts_with("0x") {
                if cols.len() < 2 {
                    continue;
                }
                let mut it = cols[0].split("..");
                let b = it.next().and_then(|x| u32::from_str_radix(x.trim_start_matches("0x"), 16).ok());
                let e = match it.next() {
                    Some(x) => u32::from_str_radix(x.trim_start_matches("0x"), 16).ok(),
                    None => b,
                };
                let (Some(b), Some(e)) = (b, e) else { continue };
                let mut cats = 0u32;
                for c in &cols[1..] {
                    if c.starts_with('#') {
                        break;
                    }
                    match cat_bits(c) {
                        Some(bits) => cats |= bits,
                        // not a class name (the loader's flag parser also reads some other spellings, e.g. hex
                        // numbers, as raw bits): what such a token means is not defined by the statement
                        None => m.unknown_class_tokens = true,
                    }
                }
                m.ranges.push(RangeLine { begin: b, end: e, cats });
            } else if cols.len() >= 4 {
                m.categories.push((cols[0].to_string(), cols[1] == "1", cols[2] == "1", cols[3].parse().unwrap_or(0)));
            }
        }
        m
    }

    /// union of the classes of all lines containing `c`; DEFAULT if that union is empty
    pub fn classes(&self, c: char) -> u32 {
        let cp = c as u32;
        let mut r = 0u32;
        for l in &self.ranges {
            if l.begin <= cp && cp <= l.end {
                r |= l.cats;
            }
        }
        if r == 0 {
            DEFAULT
        } else {
            r
        }
    }
}
