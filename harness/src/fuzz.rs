//! Byte-level entry points shared by the cargo-fuzz targets (fuzz/fuzz_targets/*.rs) and by
//! `vcheck fuzz-replay <target> <file>`: each decodes the bytes into structured arguments and runs
//! the SAME oracle the deterministic check of the property uses. `Err(Failure)` = oracle violated.

use crate::common::*;
use crate::engine::*;
use crate::gen::*;
use crate::model::cfg::*;
use crate::model::chardef::*;
use crate::model::dic::*;
use crate::model::norm::*;
use proptest::strategy::{Strategy, ValueTree};
use proptest::test_runner::{Config as PtConfig, RngSeed, TestRunner};
use std::sync::OnceLock;
use sudachi::analysis::stateless_tokenizer::DictionaryAccess;
use sudachi::dic::character_category::CharacterCategory;
use sudachi::dic::subset::InfoSubset;
use sudachi::sentence_splitter::{SentenceSplitter, SplitSentences};

pub struct FuzzWorld {
    pub dic: DicModel,
    pub cfg: CfgModel,
    pub dict: Dict,
}

static WORLDS: OnceLock<Vec<FuzzWorld>> = OnceLock::new();

fn fixture_world() -> (DicModel, CfgModel) {
    // the repository's test lexicon is not representable as a DicModel (arbitrary CSV), so the
    // fixed rich world is a hand-written one with numerals, katakana, compounds and user words
    let num = pos_from_str(POS_NUM);
    let noun = pos_from_str(POS_NOUN);
    let sym = pos_from_str(POS_SYM);
    let mut system = Vec::new();
    for c in "0123456789〇一二三四五六七八九十百千万億兆,.".chars() {
        system.push(Entry::simple(&c.to_string(), 0, 0, 2000, &num));
    }
    for (k, c) in [("京都", 3000), ("東京", 2800), ("東京都", 5000), ("都", 2900), ("東", 4600), ("に", 4400), ("行く", 5100), ("アイ", 4600), ("アイウ", 4500), ("。", 100), ("a", 900), ("株式会社", 1200)] {
        system.push(Entry::simple(k, 1, 1, c, &noun));
    }
    let idx = |k: &str, system: &Vec<Entry>| system.iter().position(|e| e.key == k).unwrap() as u32;
    let mut comp = Entry::simple("東京都京都", 1, 1, 6000, &noun);
    comp.mode = 'C';
    comp.split_a = vec![WRef::Sys(idx("東京都", &system)), WRef::Sys(idx("京都", &system))];
    comp.split_b = comp.split_a.clone();
    system.push(comp);
    let user = vec![Entry::simple("ぴらる", 1, 1, 100, &noun), Entry::simple("東京府", 1, 1, 2000, &pos_from_str(POS_USER1))];
    let dic = DicModel { matrix: Matrix { nl: 2, nr: 2, lines: vec![(0, 1, 50), (1, 0, -30), (1, 1, 10)] }, system, users: vec![user] };
    let cfg = CfgModel {
        chardef: FileSrc::Shipped,
        input: vec![
            InputPlugin::Default { rewrite: FileSrc::Shipped },
            InputPlugin::Psm { marks: vec!['ー', '-', '⁓', '〜', '〰'], replacement: Some("ー".into()) },
            InputPlugin::Yomigana { left: vec!['(', '（'], right: vec![')', '）'], max_len: 4 },
        ],
        oov: vec![
            OovPlugin::Mecab { chardef: FileSrc::Shipped, unkdef: FileSrc::Text(small_unk_def(&FileSrc::Shipped, 2, 2)), user_pos: Some(true) },
            OovPlugin::Simple { pos: sym, left: 0, right: 1, cost: 3000, user_pos: Some(true) },
        ],
        inhibit: None,
        path: vec![PathPlugin::JoinNumeric { enable_normalize: Some(true) }, PathPlugin::JoinKatakana { pos: noun, min_length: 3 }],
    };
    (dic, cfg)
}

pub fn worlds() -> &'static Vec<FuzzWorld> {
    WORLDS.get_or_init(|| {
        install_panic_hook();
        let ctx = Ctx { dir: scratch_dir("fuzz-worlds"), strict: false, tier: Tier::Quick };
        let mut v = Vec::new();
        let (dic, cfg) = fixture_world();
        let (dict, _) = build_world(&dic, &cfg, &ctx).map_err(|e| e.describe()).expect("fixture world");
        v.push(FuzzWorld { dic, cfg, dict });
        let mut dp = DicParams::small();
        dp.max_base = 14;
        let strat = world(dp, CfgParams::full());
        let mut runner = TestRunner::new(PtConfig { rng_seed: RngSeed::Fixed(0xF022), failure_persistence: None, ..PtConfig::default() });
        let mut tries = 0;
        while v.len() < 4 && tries < 100 {
            tries += 1;
            let (dic, cfg) = strat.new_tree(&mut runner).unwrap().current();
            if let Ok((dict, _)) = build_world(&dic, &cfg, &ctx) {
                v.push(FuzzWorld { dic, cfg, dict });
            }
        }
        v
    })
}

fn fail(clause: &str, detail: String) -> Result<(), Failure> {
    Err(Failure { clause: clause.to_string(), detail })
}

/// C03 + C01: byte 0 = world, byte 1 = mode, bytes 2-3 = field subset, rest = UTF-8 text
pub fn fuzz_tokenize(data: &[u8]) -> Result<(), Failure> {
    if data.len() < 4 {
        return Ok(());
    }
    let ws = worlds();
    let w = &ws[data[0] as usize % ws.len()];
    let mode = mode_of(data[1]);
    let bits = u16::from_le_bytes([data[2], data[3]]);
    let subset = if bits & 0x8000 != 0 { None } else { Some(InfoSubset::from_bits_truncate(bits as u32)) };
    let Ok(text) = std::str::from_utf8(&data[4..]) else { return Ok(()) };
    let r = guarded(|| match analyze(&w.dict, text, mode, subset) {
        Ok(ml) => {
            consume_all(&w.dict, &ml, mode == sudachi::analysis::Mode::C);
            Ok(check_partition(text, &ml))
        }
        Err(e) => Err(e),
    });
    match r {
        Err(p) => fail(&format!("panic:{}", panic_site(&p)), format!("text {:?}: {}", text, p)),
        Ok(Ok(Err((clause, detail)))) => fail(&format!("partition:{}", clause), format!("text {:?}: {}", text, detail)),
        Ok(Ok(Ok(_))) => Ok(()),
        Ok(Err(e)) => {
            // success clause: short texts with a fallback provider must succeed
            if w.cfg.has_fallback() && text.len() <= 1000 {
                return fail("must-succeed", format!("text {:?}: {}", text, e));
            }
            Ok(())
        }
    }
}

/// C06: bytes split at the first 0xFF into matrix text and lexicon CSV
pub fn fuzz_dic_compile(data: &[u8]) -> Result<(), Failure> {
    let (m, c) = match data.iter().position(|b| *b == 0xFF) {
        Some(i) => (&data[..i], &data[i + 1..]),
        None => (&b"1 1\n"[..], data),
    };
    if m.len() > 4096 {
        return Ok(());
    }
    // keep pathological allocations out: header sizes above 300 are not interesting here
    if let Ok(ms) = std::str::from_utf8(m) {
        if let Some(first) = ms.lines().find(|l| !l.trim().is_empty()) {
            for t in first.split_whitespace().take(2) {
                if t.parse::<i64>().map(|x| x > 300).unwrap_or(false) {
                    return Ok(());
                }
            }
        }
    }
    let case = crate::props::c06::Case::Build {
        matrix: String::from_utf8_lossy(m).to_string(),
        system_csv: String::from_utf8_lossy(c).to_string(),
        user_csv: None,
        probes: vec!["a".into(), "京都".into()],
        mutated: true,
    };
    // invalid UTF-8 must be offered as raw bytes: go through the builder directly for that part
    if std::str::from_utf8(m).is_err() || std::str::from_utf8(c).is_err() {
        let r = guarded(|| {
            let mut b = sudachi::dic::build::DictBuilder::new_system();
            if b.read_conn(m).is_err() {
                return;
            }
            if b.read_lexicon(c).is_err() {
                return;
            }
            if b.resolve().is_err() {
                return;
            }
            let mut out = Vec::new();
            let _ = b.compile(&mut out);
        });
        return match r {
            Ok(()) => Ok(()),
            Err(p) => fail(&format!("panic:{}", panic_site(&p)), p),
        };
    }
    use crate::engine::Property;
    let mut ctx = Ctx { dir: scratch_dir("fuzz-c06"), strict: false, tier: Tier::Quick };
    let rep = crate::props::c06::C06.check(&case, &mut ctx);
    match rep.failure {
        Some(f) => Err(f),
        None => Ok(()),
    }
}

/// C17: the bytes are a char.def; every range end +-1 and 64 spread code points are compared
pub fn fuzz_chardef(data: &[u8]) -> Result<(), Failure> {
    let Ok(text) = std::str::from_utf8(data) else { return Ok(()) };
    // the loader overflows on range ends >= 0xFFFFFFFF (outside the statement: files that load)
    let cc = match guarded(|| CharacterCategory::from_reader(text.as_bytes())) {
        Ok(Ok(c)) => c,
        _ => return Ok(()),
    };
    let model = CharDefModel::parse(text);
    if model.unknown_class_tokens {
        // a file that lists something that is not a class name: not judged (see model::chardef)
        return Ok(());
    }
    let mut pts: Vec<u32> = vec![0, 0x10FFFF];
    for l in &model.ranges {
        for p in [l.begin, l.end] {
            pts.extend([p.saturating_sub(1), p, p.saturating_add(1)]);
        }
    }
    for k in 0..64u32 {
        pts.push(k * 0x4400 + 0x33);
    }
    for cp in pts {
        if let Some(c) = char::from_u32(cp) {
            let got = cc.get_category_types(c).bits();
            let want = model.classes(c);
            if got != want {
                return fail("classes", format!("U+{:04X}: reported {:?}, union of covering lines {:?}", cp, cat_names(got), cat_names(want)));
            }
        }
    }
    Ok(())
}

/// C07: the text is normalised with the shipped table and compared with the reference; plus the
/// context-independence relation
pub fn fuzz_normalize(data: &[u8]) -> Result<(), Failure> {
    let Ok(text) = std::str::from_utf8(data) else { return Ok(()) };
    if text.len() > 2000 {
        return Ok(());
    }
    static TABLE: OnceLock<RewriteTable> = OnceLock::new();
    let t = TABLE.get_or_init(|| RewriteTable::parse(&read_src("rewrite.def", &FileSrc::Shipped)));
    let w = &worlds()[0];
    // world 0 runs Default, then PSM, then yomigana: apply only the first plugin here
    let plugin = &w.dict.input_text_plugins()[0];
    let run = |s: &str| -> Option<String> {
        let mut ib = sudachi::input_text::InputBuffer::new();
        ib.reset().push_str(s);
        ib.start_build().ok()?;
        plugin.rewrite(&mut ib).ok()?;
        Some(ib.current().to_string())
    };
    let got = match guarded(|| run(text)) {
        Ok(Some(g)) => g,
        Ok(None) => return Ok(()),
        Err(p) => return fail(&format!("panic:{}", panic_site(&p)), p),
    };
    let r = normalize_default(t, text);
    if got != r.text && !r.saw_titlecase {
        return fail("default-reference", format!("text {:?}: plugin gives {:?}, reference {:?}", text, got, r.text));
    }
    if let (Some(j), Some(y)) = (run(&format!("{}|Ａ", text)), run("Ａ")) {
        if !text.contains('|') && j != format!("{}|{}", got, y) {
            return fail("context-independence", format!("norm({:?}|Ａ) = {:?} but norm(text)|norm(Ａ) = {:?}|{:?}", text, j, got, y));
        }
    }
    Ok(())
}

/// C16: byte 0 = window limit selector, byte 1 = checker flag, rest = text; validity predicates
pub fn fuzz_sentence(data: &[u8]) -> Result<(), Failure> {
    if data.len() < 2 {
        return Ok(());
    }
    let Ok(text) = std::str::from_utf8(&data[2..]) else { return Ok(()) };
    let w = &worlds()[0];
    let base = if data[0] % 4 == 0 { SentenceSplitter::new() } else { SentenceSplitter::with_limit(1 + (data[0] as usize % 13)) };
    let sp = if data[1] & 1 == 1 { base.with_checker(w.dict.lexicon()) } else { base };
    let r = guarded(|| {
        let mut v = Vec::new();
        for (r, s) in sp.split(text) {
            v.push((r.start, r.end, s.len()));
            if v.len() > text.len() + 1 {
                break;
            }
        }
        v
    });
    let v = match r {
        Ok(v) => v,
        Err(p) => return fail(&format!("panic:{}", panic_site(&p)), format!("text {:?}: {}", text, p)),
    };
    let mut pos = 0;
    for (b, e, l) in &v {
        if *b != pos || *e <= *b || *e > text.len() || !text.is_char_boundary(*e) || *l != e - b {
            return fail("partition", format!("text {:?}: sentence {}..{} after {}", text, b, e, pos));
        }
        pos = *e;
    }
    if pos != text.len() {
        return fail("coverage", format!("text {:?}: sentences end at {}", text, pos));
    }
    Ok(())
}

/// Generic structured target: the input bytes select the case of the property's OWN strategy (dictionaries,
/// configurations, histories), which then goes through the property's own oracle, in a binary built with
/// AddressSanitizer, debug assertions and overflow checks. The bytes seed proptest's ChaCha generator (first 32
/// bytes, the rest folded in). proptest's pass-through generator, which would let libFuzzer mutate single
/// draws, is not usable with these strategies: every `prop_oneof!` halves the remaining entropy for its lazy
/// alternatives, the data is used up after a few dozen draws, and rand's rejection sampling never terminates
/// on the zeros that follow (observed: the first campaign hung on the empty input). So libFuzzer is the driver
/// and the sanitizer is the added monitor here; coverage feedback only decides which seeds are kept.
fn fuzz_prop_with<P: Property>(p: &P, data: &[u8]) -> Result<(), Failure> {
    use proptest::test_runner::{RngAlgorithm, TestRng};
    install_panic_hook();
    let mut seed = [0u8; 32];
    for (i, b) in data.iter().enumerate() {
        if i < 32 {
            seed[i] ^= *b;
        } else {
            // fold the rest in, position dependent
            let k = i % 32;
            seed[k] = seed[k].rotate_left(3) ^ b.wrapping_add((i / 32) as u8);
        }
    }
    let rng = TestRng::from_seed(RngAlgorithm::ChaCha, &seed);
    let mut runner = TestRunner::new_with_rng(PtConfig { failure_persistence: None, ..PtConfig::default() }, rng);
    let strategy = p.strategy(Tier::Quick);
    let Ok(tree) = strategy.new_tree(&mut runner) else { return Ok(()) };
    let case = tree.current();
    let mut ctx = Ctx { dir: scratch_dir(&format!("fuzz-prop-{}", p.id())), strict: false, tier: Tier::Quick };
    let rep = match guarded(|| p.check(&case, &mut ctx)) {
        Ok(r) => r,
        Err(m) => {
            let mut r = Report::default();
            r.fail(&format!("harness-panic:{}", panic_site(&m)), m);
            r
        }
    };
    match rep.failure {
        None => Ok(()),
        Some(f) => {
            let cj = serde_json::to_value(&case).unwrap_or(serde_json::Value::Null);
            let path = verif_root().join("replays").join(p.id()).join("fuzz-prop-case.json");
            write_json(&path, &serde_json::json!({"property": p.id(), "clause": f.clause, "detail": f.detail, "case": cj}));
            Err(f)
        }
    }
}

/// properties whose check is an in-process function of a generated case (C18 and C19 spawn processes)
pub fn fuzz_prop(id: &str, data: &[u8]) -> Result<(), Failure> {
    use crate::props::*;
    match id {
        "C01" => fuzz_prop_with(&c01::C01, data),
        "C02" => fuzz_prop_with(&c02::C02, data),
        "C03" => fuzz_prop_with(&c03::C03, data),
        "C04" => fuzz_prop_with(&c04::C04, data),
        "C05" => fuzz_prop_with(&c05::C05, data),
        "C06" => fuzz_prop_with(&c06::C06, data),
        "C07" => fuzz_prop_with(&c07::C07, data),
        "C08" => fuzz_prop_with(&c08::C08, data),
        "C09" => fuzz_prop_with(&c09::C09, data),
        "C10" => fuzz_prop_with(&c10::C10, data),
        "C11" => fuzz_prop_with(&c11::C11, data),
        "C12" => fuzz_prop_with(&c12::C12, data),
        "C13" => fuzz_prop_with(&c13::C13, data),
        "C14" => fuzz_prop_with(&c14::C14, data),
        "C15" => fuzz_prop_with(&c15::C15, data),
        "C16" => fuzz_prop_with(&c16::C16, data),
        "C17" => fuzz_prop_with(&c17::C17, data),
        "C20" => fuzz_prop_with(&c20::C20, data),
        _ => Err(Failure { clause: "unknown-property".into(), detail: id.to_string() }),
    }
}

pub fn run_target(name: &str, data: &[u8]) -> Result<(), Failure> {
    if let Some(id) = name.strip_prefix("prop:") {
        return fuzz_prop(id, data);
    }
    match name {
        "tokenize" => fuzz_tokenize(data),
        "dic_compile" => fuzz_dic_compile(data),
        "chardef" => fuzz_chardef(data),
        "normalize" => fuzz_normalize(data),
        "sentence" => fuzz_sentence(data),
        _ => Err(Failure { clause: "unknown-target".into(), detail: name.to_string() }),
    }
}

/// which property owns a target
pub fn target_property(name: &str) -> &'static str {
    if let Some(id) = name.strip_prefix("prop:") {
        for k in ["C01", "C02", "C03", "C04", "C05", "C06", "C07", "C08", "C09", "C10", "C11", "C12", "C13", "C14", "C15", "C16", "C17", "C20"] {
            if k == id {
                return k;
            }
        }
        return "?";
    }
    match name {
        "tokenize" => "C03",
        "dic_compile" => "C06",
        "chardef" => "C17",
        "normalize" => "C07",
        "sentence" => "C16",
        _ => "?",
    }
}
