use sudachi_verif::driver::{run_property, Args};
use sudachi_verif::engine::Tier;
use sudachi_verif::props;

fn write_fixture<C: serde::Serialize>(prop: &str, name: &str, case: &C, note: &str) {
    let path = sudachi_verif::engine::verif_root().join("corpus").join(prop).join(name);
    sudachi_verif::engine::write_json(&path, &serde_json::json!({"property": prop, "note": note, "case": case}));
    println!("wrote {}", path.display());
}

fn fixtures() {
    for (name, case, note) in props::c03::fixtures() {
        write_fixture("C03", name, &case, note);
    }
    for (name, case, note) in props::c15::fixtures() {
        write_fixture("C15", name, &case, note);
    }
    for (name, case, note) in props::c20::fixtures() {
        write_fixture("C20", name, &case, note);
    }
    for (name, case, note) in props::c06::fixtures() {
        write_fixture("C06", name, &case, note);
    }
    for (name, case, note) in props::c12::fixtures() {
        write_fixture("C12", name, &case, note);
    }
    for (name, case, note) in props::c02::fixtures() {
        write_fixture("C02", name, &case, note);
    }
    for (name, case, note) in props::c10::fixtures() {
        write_fixture("C10", name, &case, note);
    }
}

fn main() {
    // safety net: a runaway allocation in the code under test ends this process (fatal signal -> crash handler ->
    // the case is reported) instead of exhausting the machine; the checks need a few GiB at most
    let argv: Vec<String> = std::env::args().collect();
    // (only for property runs: the `stress` child may be a ThreadSanitizer build, which reserves terabytes)
    if argv.get(1).map(|a| a.starts_with('C')).unwrap_or(false) {
        unsafe {
            let lim = libc::rlimit { rlim_cur: 32 << 30, rlim_max: 32 << 30 };
            libc::setrlimit(libc::RLIMIT_AS, &lim);
        }
    }
    if argv.len() < 3 && !(argv.len() >= 2 && (argv[1] == "fixtures" || argv[1] == "oracle-server" || argv[1] == "stress" || argv[1] == "fuzz-replay")) {
        eprintln!("usage: vcheck <Cxx> <quick|thorough> [--replay FILE]");
        std::process::exit(2);
    }
    if argv[1] == "fixtures" {
        fixtures();
        return;
    }
    if argv[1] == "fuzz-replay" {
        // vcheck fuzz-replay <target> <file>: run one saved libFuzzer input through the deterministic oracle
        sudachi_verif::engine::install_panic_hook();
        let data = std::fs::read(&argv[3]).expect("read input");
        match sudachi_verif::fuzz::run_target(&argv[2], &data) {
            Ok(()) => {
                println!("FUZZ-REPLAY PASS target={} file={}", argv[2], argv[3]);
                std::process::exit(0);
            }
            Err(f) => {
                println!("FAIL clause={} detail={}", f.clause, sudachi_verif::driver::truncate(&f.detail, 600));
                println!("VIOLATION property={} replay={}", sudachi_verif::fuzz::target_property(&argv[2]), argv[3]);
                std::process::exit(1);
            }
        }
    }
    if argv[1] == "stress" {
        std::process::exit(props::c18::stress_main(&argv[2..]));
    }
    if argv[1] == "oracle-server" {
        let base = argv.get(2).map(std::path::PathBuf::from).unwrap_or_else(props::c19::worlds_base);
        sudachi_verif::engine::install_panic_hook();
        std::process::exit(props::c19::oracle_server(&base));
    }
    let id = argv[1].as_str();
    let tier = match argv[2].as_str() {
        "quick" => Tier::Quick,
        "thorough" => Tier::Thorough,
        x => {
            eprintln!("unknown tier {}", x);
            std::process::exit(2);
        }
    };
    let seed = std::env::var("VERIF_SEED").ok().and_then(|s| s.trim().parse::<i64>().ok()).map(|x| x as u64).unwrap_or(0);
    let mut replay = None;
    let mut i = 3;
    while i < argv.len() {
        if argv[i] == "--replay" && i + 1 < argv.len() {
            replay = Some(std::path::PathBuf::from(&argv[i + 1]));
            i += 1;
        }
        i += 1;
    }
    let args = Args { tier, seed, replay };
    let code = match id {
        "C01" => run_property(&props::c01::C01, &args),
        "C02" => run_property(&props::c02::C02, &args),
        "C03" => run_property(&props::c03::C03, &args),
        "C04" => run_property(&props::c04::C04, &args),
        "C05" => run_property(&props::c05::C05, &args),
        "C06" => run_property(&props::c06::C06, &args),
        "C07" => run_property(&props::c07::C07, &args),
        "C08" => run_property(&props::c08::C08, &args),
        "C09" => run_property(&props::c09::C09, &args),
        "C10" => run_property(&props::c10::C10, &args),
        "C11" => run_property(&props::c11::C11, &args),
        "C12" => run_property(&props::c12::C12, &args),
        "C13" => run_property(&props::c13::C13, &args),
        "C14" => run_property(&props::c14::C14, &args),
        "C15" => run_property(&props::c15::C15, &args),
        "C16" => run_property(&props::c16::C16, &args),
        "C17" => run_property(&props::c17::C17, &args),
        "C18" => run_property(&props::c18::C18, &args),
        "C19" => {
            // replay files of the Python half are handed to the Hypothesis driver
            if let Some(path) = &args.replay {
                let v: Option<serde_json::Value> = std::fs::read_to_string(path).ok().and_then(|t| serde_json::from_str(&t).ok());
                let is_py = v.as_ref().map(|v| v.get("case").unwrap_or(v).get("python").is_some()).unwrap_or(false);
                if is_py {
                    let root = sudachi_verif::engine::verif_root();
                    let seed_env = std::env::var("VERIF_SEED").ok().and_then(|s| s.trim().parse::<i64>().ok()).unwrap_or(0) as u64;
                    if let Err(e) = props::c19::write_worlds(&props::c19::worlds_base(), seed_env) {
                        println!("cannot prepare worlds: {}", e);
                        std::process::exit(2);
                    }
                    let st = std::process::Command::new("python3-vt")
                        .arg(root.join("py").join("c19_check.py"))
                        .arg("--lib").arg(root.join("work").join("pylib"))
                        .arg("--worlds").arg(props::c19::worlds_base())
                        .arg("--oracle").arg(std::env::current_exe().unwrap())
                        .arg("--out").arg(root.join("work").join("c19-python-replay.json"))
                        .arg("--replays").arg(root.join("replays").join("C19"))
                        .arg("--replay").arg(path)
                        .status();
                    match st {
                        Ok(s) if s.success() => std::process::exit(0),
                        Ok(s) if s.code() == Some(1) => {
                            println!("VIOLATION property=C19 replay={}", path.display());
                            std::process::exit(1)
                        }
                        _ => {
                            println!("FAIL clause=python:interpreter-crash");
                            println!("VIOLATION property=C19 replay={}", path.display());
                            std::process::exit(1)
                        }
                    }
                }
            }
            run_property(&props::c19::C19, &args)
        }
        "C20" => run_property(&props::c20::C20, &args),
        x => {
            eprintln!("unknown property {}", x);
            2
        }
    };
    std::process::exit(code);
}
