use sudachi_verif::driver::{run_property, Args};
use sudachi_verif::engine::Tier;
use sudachi_verif::props;

fn write_fixture<C: serde::Serialize>(prop: &str, name: &str, case: &C, note: &str) {
    let path = sudachi_verif::engine::verif_root().join("corpus").join(prop).join(name);
    sudachi_verif::engine::write_json(&path, &serde_json::json!({"property": prop, "note": note, "case": case}));
    println!("wrote {}", path.display());
}

fn fixtures() {
    for (name, case, note) in props::c03::fixtures() {
        write_fixture("C03", name, &case, note);
    }
    for (name, case, note) in props::c15::fixtures() {
        write_fixture("C15", name, &case, note);
    }
    for (name, case, note) in props::c20::fixtures() {
        write_fixture("C20", name, &case, note);
    }
    for (name, case, note) in props::c06::fixtures() {
        write_fixture("C06", name, &case, note);
    }
}

fn main() {
    let argv: Vec<String> = std::env::args().collect();
    if argv.len() < 3 && !(argv.len() == 2 && argv[1] == "fixtures") {
        eprintln!("usage: vcheck <Cxx> <quick|thorough> [--replay FILE]");
        std::process::exit(2);
    }
    if argv[1] == "fixtures" {
        fixtures();
        return;
    }
    let id = argv[1].as_str();
    let tier = match argv[2].as_str() {
        "quick" => Tier::Quick,
        "thorough" => Tier::Thorough,
        x => {
            eprintln!("unknown tier {}", x);
            std::process::exit(2);
        }
    };
    let seed = std::env::var("VERIF_SEED").ok().and_then(|s| s.trim().parse::<i64>().ok()).map(|x| x as u64).unwrap_or(0);
    let mut replay = None;
    let mut i = 3;
    while i < argv.len() {
        if argv[i] == "--replay" && i + 1 < argv.len() {
            replay = Some(std::path::PathBuf::from(&argv[i + 1]));
            i += 1;
        }
        i += 1;
    }
    let args = Args { tier, seed, replay };
    let code = match id {
        "C01" => run_property(&props::c01::C01, &args),
        "C02" => run_property(&props::c02::C02, &args),
        "C03" => run_property(&props::c03::C03, &args),
        "C04" => run_property(&props::c04::C04, &args),
        "C05" => run_property(&props::c05::C05, &args),
        "C06" => run_property(&props::c06::C06, &args),
        "C07" => run_property(&props::c07::C07, &args),
        "C08" => run_property(&props::c08::C08, &args),
        "C09" => run_property(&props::c09::C09, &args),
        "C10" => run_property(&props::c10::C10, &args),
        "C11" => run_property(&props::c11::C11, &args),
        "C12" => run_property(&props::c12::C12, &args),
        "C13" => run_property(&props::c13::C13, &args),
        "C14" => run_property(&props::c14::C14, &args),
        "C15" => run_property(&props::c15::C15, &args),
        "C16" => run_property(&props::c16::C16, &args),
        "C17" => run_property(&props::c17::C17, &args),
        "C20" => run_property(&props::c20::C20, &args),
        x => {
            eprintln!("unknown property {}", x);
            2
        }
    };
    std::process::exit(code);
}
