use sudachi_verif::common::*;
use sudachi_verif::engine::*;
use sudachi_verif::gen::*;
use sudachi_verif::props::c03::Case;
fn main() {
    install_panic_hook();
    let ctx = Ctx { dir: scratch_dir("probe"), strict: false, tier: Tier::Quick };
    let path = std::env::args().nth(1).unwrap();
    let v: serde_json::Value = serde_json::from_str(&std::fs::read_to_string(path).unwrap()).unwrap();
    let case: Case = serde_json::from_value(v["case"].clone()).unwrap();
    let (d, _) = match build_world(&case.dic, &case.cfg, &ctx) { Ok(x) => x, Err(e) => panic!("{}", e.describe()) };
    let keys = all_keys(&case.dic);
    for t in &case.texts {
        let text = render_pieces(&keys, t);
        for mode in MODES {
            let r = guarded(|| {
                let ml = analyze(&d, &text, mode, None).unwrap();
                let n = ml.len();
                (n, ml.get(0).total_cost(), ml.get(n-1).total_cost(), ml.get(n-1).word_id(), ml.get(1).end())
            });
            println!("{} {} -> {:?}", text.len(), mode_name(mode), r);
        }
    }
}
