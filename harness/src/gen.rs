//! Shared proptest strategies: character pool, dictionary models, configurations, texts.

use crate::model::cfg::*;
use crate::model::dic::*;
use proptest::collection::vec;
use proptest::prelude::*;
use proptest::sample::select;
use serde::{Deserialize, Serialize};

/// monotone index mapping (shrinks towards 0)
pub fn ix(i: u16, len: usize) -> usize {
    if len == 0 {
        0
    } else {
        ((i as usize) * len) >> 16
    }
}

// ------------------------------------------------------------------------------------------
// characters

pub const POOL: &[&str] = &[
    // ascii
    "a", "b", "c", "A", "B", "Z", "x", "0", "1", "2", "5", "9", ",", ".", "(", ")", "-", "^", "[", "]", "\\", " ", "!", "?", "&", "~", "/", "\"", "#",
    // controls
    "\u{0}", "\t", "\n", "\r", "\u{7f}", "\u{85}",
    // latin-1, greek, cyrillic
    "é", "É", "ß", "Σ", "σ", "ς", "Д", "д",
    // hiragana / katakana
    "あ", "い", "う", "か", "が", "っ", "と", "の", "や", "で", "す", "ア", "イ", "ウ", "カ", "ガ", "ッ", "ャ", "ー", "ヽ", "ｱ", "ｶ", "ﾞ", "ﾟ",
    // kanji incl numerals
    "京", "都", "東", "人", "漢", "字", "〇", "一", "二", "三", "十", "百", "千", "万", "億", "兆",
    // full-width
    "Ａ", "ａ", "１", "２", "，", "．", "（", "）", "！", "？", "　",
    // NFKC expanders
    "㍿", "㌀", "㍻", "㈱", "ﬁ", "Ⅲ", "⑩", "ﷺ", "½", "㎏",
    // combining
    "\u{301}", "\u{3099}", "\u{309a}",
    // zwj etc
    "\u{200d}", "\u{200c}", "\u{fe0f}", "\u{1f3fb}", "\u{1f1ef}", "\u{1f1f5}",
    // astral
    "𠮷", "😀", "𝐀",
    // title case, unassigned, private, last
    "ǅ", "\u{378}", "\u{e000}", "\u{10ffff}",
    // sentence material
    "。", "．", "？", "！", "…", "「", "」", "（", "）", "、", "・", "♪",
];

pub fn pool_char() -> BoxedStrategy<char> {
    prop_oneof![
        12 => select(POOL).prop_map(|s| s.chars().next().unwrap()),
        1 => any::<char>(),
    ]
    .boxed()
}

pub fn pool_string(max: usize) -> BoxedStrategy<String> {
    vec(pool_char(), 0..=max).prop_map(|v| v.into_iter().collect()).boxed()
}

/// characters that survive the shipped normalisation unchanged: usable in dictionary keys that
/// must be matched after the DefaultInputTextPlugin ran
pub const KEY_ALPHABET: &[&str] = &[
    "a", "b", "c", "1", "2", "あ", "い", "か", "ア", "イ", "カ", "ー", "京", "都", "東", "一", "二", "十", "千", "万", ",", ".", "𠮷", "é", "σ", "д", "。",
];

pub fn costs() -> BoxedStrategy<i16> {
    prop_oneof![
        8 => -300i16..9000i16,
        1 => any::<i16>(),
        1 => select(vec![i16::MIN + 1, -1i16, 0, 1, i16::MAX, i16::MIN]),
    ]
    .boxed()
}

pub fn matrix(max_dim: u16, square_only: bool) -> BoxedStrategy<Matrix> {
    let dims = if square_only {
        (1..=max_dim).prop_map(|n| (n, n)).boxed()
    } else {
        prop_oneof![3 => (1..=max_dim).prop_map(|n| (n, n)), 1 => (1..=max_dim, 1..=max_dim)].boxed()
    };
    dims.prop_flat_map(|(nl, nr)| {
        let cells = (nl as usize * nr as usize).min(40);
        (Just(nl), Just(nr), vec((0..nl, 0..nr, costs()), 0..=cells + 2))
    })
    .prop_map(|(nl, nr, lines)| Matrix { nl, nr, lines })
    .boxed()
}

// ------------------------------------------------------------------------------------------
// dictionary models

#[derive(Clone, Debug)]
pub struct DicParams {
    pub alphabet: Vec<&'static str>,
    pub max_key_chars: usize,
    pub max_base: usize,
    pub max_compound: usize,
    pub max_users: usize,
    pub min_users: usize,
    pub max_user_entries: usize,
    pub max_dim: u16,
    pub square_only: bool,
    pub non_indexed: bool,
    /// headword / reading / normalized different from the key
    pub forms: bool,
    /// allow cost -32768 in user dictionaries (automatic cost at load time)
    pub auto_cost: bool,
    /// use inline / numeric references
    pub inline_refs: bool,
    pub escapes: bool,
    /// first system entry is a 名詞,数詞 row (needed by JoinNumeric), second has POS_NOUN, third POS_SYM
    pub anchor_pos: bool,
    /// strings and arrays at the format boundaries (126/127/128 UTF-16 units, 126/127 items)
    pub boundaries: bool,
    /// keep ',' and '.' out of normalised forms that differ from the key (input class of known finding F12)
    pub avoid_f12: bool,
    /// with probability 1/16 one system entry gets up to this many homographs (same key, other cost /
    /// reading), the count drawn around 2^k; 127 ids per key is the format's limit. 0 = never
    pub homographs: usize,
    /// with probability 1/16 the matrix is 181..260 wide (more than 32,767 cells), costs declared in the far cells too
    pub big_matrix: bool,
    /// compounds of 31..127 units (the split arrays are length-prefixed with one byte)
    pub many_units: bool,
    /// rows in alternative but equivalent CSV spellings (see `Entry::syntax`), one row in five
    pub csv_syntax: bool,
}

impl DicParams {
    pub fn small() -> DicParams {
        DicParams {
            alphabet: KEY_ALPHABET.to_vec(),
            max_key_chars: 3,
            max_base: 10,
            max_compound: 3,
            max_users: 2,
            min_users: 0,
            max_user_entries: 5,
            max_dim: 4,
            square_only: true,
            non_indexed: true,
            forms: true,
            auto_cost: true,
            inline_refs: true,
            escapes: false,
            anchor_pos: true,
            avoid_f12: false,
            boundaries: false,
            homographs: 127,
            big_matrix: false,
            many_units: true,
            csv_syntax: true,
        }
    }
}

#[derive(Clone, Debug)]
struct BaseSpec {
    key: String,
    left: u16,
    right: u16,
    cost: i16,
    pos: u16,
    non_indexed: bool,
    form_sel: u8,
    reading: String,
    norm: String,
    dic_form: Option<u16>,
    syn: Vec<u32>,
    esc: u8,
    syntax: u8,
}

fn base_spec(p: &DicParams) -> BoxedStrategy<BaseSpec> {
    let alpha = p.alphabet.clone();
    let key = vec(select(alpha.clone()), 1..=p.max_key_chars).prop_map(|v| v.concat());
    let other = vec(select(alpha), 1..=3).prop_map(|v| v.concat());
    let (key, other) = if p.boundaries {
        (prop_oneof![6 => key, 1 => boundary_string()].boxed(), prop_oneof![3 => other, 1 => boundary_string()].boxed())
    } else {
        (key.boxed(), other.boxed())
    };
    let syn = if p.boundaries {
        prop_oneof![8 => vec(prop_oneof![0u32..10, any::<u32>()], 0..3), 1 => vec(any::<u32>(), 126..=127)].boxed()
    } else {
        vec(prop_oneof![0u32..10, any::<u32>()], 0..3).boxed()
    };
    let esc = if p.escapes { prop_oneof![4 => Just(0u8), 1 => Just(1u8), 1 => Just(2u8)].boxed() } else { Just(0u8).boxed() };
    let syntax = if p.csv_syntax { prop_oneof![4 => Just(0u8), 1 => 0u8..128].boxed() } else { Just(0u8).boxed() };
    (
        key,
        any::<u16>(),
        any::<u16>(),
        costs(),
        any::<u16>(),
        prop::bool::weighted(0.08),
        0u8..8,
        other.clone(),
        other,
        prop::option::weighted(0.25, any::<u16>()),
        syn,
        (esc, syntax),
    )
        .prop_map(|(key, left, right, cost, pos, non_indexed, form_sel, reading, norm, dic_form, syn, (esc, syntax))| BaseSpec {
            key,
            left,
            right,
            cost,
            pos,
            non_indexed,
            form_sel,
            reading,
            norm,
            dic_form,
            syn,
            esc,
            syntax,
        })
        .boxed()
}

/// strings whose UTF-16 length sits on the 1-byte / 2-byte length-prefix boundary
pub fn boundary_string() -> BoxedStrategy<String> {
    (select(vec!["", "a", "ab"]), select(vec!["a", "あ", "𠮷", "é"]), select(vec![1usize, 2, 61, 62, 63, 64, 124, 125, 126, 127, 128, 129, 254, 255, 256]))
        .prop_map(|(pre, unit, n)| {
            let per = unit.encode_utf16().count();
            format!("{}{}", pre, unit.repeat((n / per).max(1)))
        })
        .boxed()
}

#[derive(Clone, Debug)]
struct CompoundSpec {
    units: Vec<u16>,
    left: u16,
    right: u16,
    cost: i16,
    pos: u16,
    style: u8,
    with_b: u8,
    ws: bool,
}

fn compound_spec() -> BoxedStrategy<CompoundSpec> {
    (prop_oneof![12 => vec(any::<u16>(), 2..=3), 1 => (any::<u16>(), select(vec![31usize, 32, 33, 62, 63, 64, 65, 100, 126, 127])).prop_map(|(u, n)| vec![u; n])], any::<u16>(), any::<u16>(), costs(), any::<u16>(), 0u8..3, 0u8..4, any::<bool>())
        .prop_map(|(units, left, right, cost, pos, style, with_b, ws)| CompoundSpec { units, left, right, cost, pos, style, with_b, ws })
        .boxed()
}

pub const SYS_POS: &[&str] = &[POS_NUM, POS_NOUN, POS_SYM, POS_VERB, POS_PART, POS_PROPER];
pub const USER_POS: &[&str] = &[POS_NOUN, POS_NUM, POS_USER1, POS_USER2, POS_USER3, POS_PLUGIN, POS_BLANKS, POS_BLANKS2];

fn mk_ref(style: u8, user: bool, target_user: bool, n: u32, e: &Entry) -> WRef {
    if style == 2 {
        // inline: key (or headword for system targets seen from a user dictionary), pos, reading
        let surface = if user && !target_user { e.headword.clone() } else { e.key.clone() };
        if !surface.contains('/') && !surface.contains(',') && !surface.contains('"') && surface != "*" && !surface.is_empty()
            && !e.reading.contains('/') && !e.reading.contains(',') && !e.reading.contains('"')
            && !(surface.chars().all(|c| c.is_ascii_digit()))
            && !(surface.starts_with('U') && surface[1..].chars().all(|c| c.is_ascii_digit()))
        {
            return WRef::Inline { surface, pos: e.pos.clone(), reading: e.reading.clone() };
        }
    }
    if target_user {
        WRef::User(n)
    } else {
        WRef::Sys(n)
    }
}

fn build_entries(
    p: &DicParams,
    nl: u16,
    nr: u16,
    bases: Vec<BaseSpec>,
    comps: Vec<CompoundSpec>,
    pos_pool: &[&str],
    user: bool,
    system: Option<&Vec<Entry>>,
) -> Vec<Entry> {
    let mut out: Vec<Entry> = Vec::new();
    // ids are kept below min(nl, nr): on non-square matrices the ids in between are the F9 class
    let (nl, nr) = (nl.min(nr), nl.min(nr));
    // the three parts of speech the plugins ask for are carried by the first three rows, in any order (the
    // numeral part of speech is not always id 0)
    let rot = bases.first().map(|b| b.pos as usize % 3).unwrap_or(0);
    for (i, b) in bases.iter().enumerate() {
        let mut pos_i = ix(b.pos, pos_pool.len());
        if p.anchor_pos && !user && i < 3 {
            pos_i = (i + rot) % 3;
        }
        let pos = pos_from_str(pos_pool[pos_i]);
        let mut e = Entry::simple(&b.key, ix(b.left, nl as usize) as i16, ix(b.right, nr as usize) as i16, b.cost, &pos);
        if p.anchor_pos && !user && i < 3 {
            // anchors stay ordinary words
        } else if p.non_indexed && b.non_indexed {
            e.left = -1;
        }
        if !p.auto_cost && e.cost == i16::MIN {
            e.cost = i16::MIN + 1;
        }
        if !user && e.cost == i16::MIN {
            // plain cost for system rows; keep
        }
        if p.forms {
            if b.form_sel & 1 != 0 {
                e.reading = b.reading.clone();
            }
            if b.form_sel & 2 != 0 {
                e.normalized = b.norm.clone();
            }
            if b.form_sel >= 6 {
                // 6: the reading equals the headword (stored elided), 7: an own reading
                e.headword = format!("{}{}", b.key, b.norm);
                if b.form_sel & 1 == 0 {
                    e.reading = e.headword.clone();
                }
            }
        }
        if p.avoid_f12 && e.normalized != e.key && (e.normalized.contains(',') || e.normalized.contains('.')) {
            e.normalized = e.key.clone();
        }
        e.synonyms = b.syn.clone();
        e.esc = b.esc;
        e.syntax = b.syntax;
        out.push(e);
    }
    // a lexicon without any indexed row makes the compiler panic (known finding F14): keep one
    if !out.is_empty() && out.iter().all(|e| e.left < 0) {
        out[0].left = 0;
    }
    // dic_form: a reference to an earlier-or-later base entry of the same dictionary
    let nbase = out.len();
    for (i, b) in bases.iter().enumerate() {
        if let Some(d) = b.dic_form {
            let lim = nbase;
            if lim > 0 {
                let t = ix(d, lim);
                // a plain or (in user dictionaries) a U-prefixed number: both name a row of the same lexicon
                out[i].dic_form = Some(if user && d % 2 == 1 { WRef::User(t as u32) } else { WRef::Sys(t as u32) });
            }
        }
    }
    for c in comps {
        // unit pool: own base entries (+ system entries for user dictionaries)
        let sys_len = system.map(|s| s.len()).unwrap_or(0);
        let pool_len = nbase + if user { sys_len } else { 0 };
        if pool_len == 0 {
            continue;
        }
        let mut units: Vec<(bool, u32)> = Vec::new(); // (in own user dict?, line)
        for u in &c.units {
            let k = ix(*u, pool_len);
            if k < nbase {
                units.push((user, k as u32));
            } else {
                units.push((false, (k - nbase) as u32));
            }
        }
        let get = |own: bool, n: u32, out: &Vec<Entry>| -> Entry {
            if own || !user {
                out[n as usize].clone()
            } else {
                system.unwrap()[n as usize].clone()
            }
        };
        let unit_entries: Vec<Entry> = units.iter().map(|(o, n)| get(*o, *n, &out)).collect();
        // split units must be indexable words for the split to make sense; keep them whatever they are
        let key: String = unit_entries.iter().map(|e| e.key.as_str()).collect();
        if units.len() > 3 && (!(p.boundaries || p.many_units) || key.len() > 600) {
            continue;
        }
        if units.len() <= 3 && !p.boundaries && key.chars().count() > 12 {
            continue;
        }
        if key.len() > 2000 {
            continue;
        }
        let pos = pos_from_str(pos_pool[ix(c.pos, pos_pool.len())]);
        let mut e = Entry::simple(&key, ix(c.left, nl as usize) as i16, ix(c.right, nr as usize) as i16, c.cost, &pos);
        if !p.auto_cost && e.cost == i16::MIN {
            e.cost += 1;
        }
        e.mode = 'C';
        let style = if p.inline_refs && units.len() <= 3 { c.style } else { 0 };
        let refs: Vec<WRef> = units
            .iter()
            .zip(unit_entries.iter())
            .map(|((own, n), ue)| mk_ref(style, user, *own && user, *n, ue))
            .collect();
        e.split_a = refs.clone();
        match c.with_b {
            0 => {}
            1 => e.split_b = refs.clone(),
            _ => {
                if units.len() == 3 {
                    // nested: sub = u1+u2 (its own entry, A-split into u1,u2), B = [u0, sub]
                    let subkey: String = unit_entries[1..].iter().map(|e| e.key.as_str()).collect();
                    let mut sub = Entry::simple(&subkey, e.left, e.right, c.cost.saturating_add(7), &pos);
                    if !p.auto_cost && sub.cost == i16::MIN {
                        sub.cost += 1;
                    }
                    sub.mode = 'B';
                    sub.split_a = refs[1..].to_vec();
                    let sub_line = out.len() as u32;
                    out.push(sub.clone());
                    e.split_b = vec![refs[0].clone(), mk_ref(style, user, user, sub_line, &sub)];
                } else {
                    e.split_b = refs.clone();
                }
            }
        }
        if c.ws {
            e.word_structure = e.split_a.iter().filter(|r| !matches!(r, WRef::Inline { .. })).cloned().collect();
        }
        out.push(e);
    }
    // Inline references name a row by (surface, POS, reading) and are resolved own-dictionary-first, first match
    // wins: another row (a twin, the compound itself, a headword that equals a later key) may capture the
    // reference. As long as the captured row has the same key the word stays well formed; if its key differs the
    // declared units no longer concatenate to the key (the input class of known finding F15), so such a word is
    // turned into a plain one.
    let resolve_key = |own: &Vec<Entry>, r: &WRef| -> Option<String> {
        match r {
            WRef::Sys(n) => {
                if user {
                    system.and_then(|s| s.get(*n as usize)).map(|e| e.key.clone())
                } else {
                    own.get(*n as usize).map(|e| e.key.clone())
                }
            }
            WRef::User(n) => own.get(*n as usize).map(|e| e.key.clone()),
            WRef::Inline { surface, pos, reading } => own
                .iter()
                .find(|e| &e.key == surface && &e.pos == pos && &e.reading == reading)
                .or_else(|| if user { system.and_then(|s| s.iter().find(|e| &e.headword == surface && &e.pos == pos && &e.reading == reading)) } else { None })
                .map(|e| e.key.clone()),
        }
    };
    let snapshot = out.clone();
    for e in out.iter_mut() {
        let has_inline = e.split_a.iter().chain(e.split_b.iter()).any(|r| matches!(r, WRef::Inline { .. }));
        if !has_inline {
            continue;
        }
        let ok = |refs: &Vec<WRef>| -> bool {
            refs.is_empty() || refs.iter().map(|r| resolve_key(&snapshot, r)).collect::<Option<Vec<String>>>().map(|v| v.concat() == e.key).unwrap_or(false)
        };
        if !(ok(&e.split_a) && ok(&e.split_b)) {
            e.split_a.clear();
            e.split_b.clear();
            e.word_structure.clear();
            e.mode = 'A';
        }
    }
    out
}

/// a matrix with more than 32,767 cells: costs are declared for far cells as well as near ones
pub fn big_matrix() -> BoxedStrategy<Matrix> {
    (select(vec![181u16, 182, 183, 200, 255, 256, 257, 260]), any::<bool>())
        .prop_flat_map(|(n, square)| {
            let nr = if square { n } else { n - 1 };
            (Just(n), Just(nr), vec((prop_oneof![0..n, (n - 3)..n], prop_oneof![0..nr, (nr - 3)..nr], costs()), 0..30))
        })
        .prop_map(|(nl, nr, lines)| Matrix { nl, nr, lines })
        .boxed()
}

pub fn dic_model(p: DicParams) -> BoxedStrategy<DicModel> {
    let p2 = p.clone();
    let user = (vec(base_spec(&p), 1..=p.max_user_entries.max(1)), vec(compound_spec(), 0..=2));
    let mx = if p.big_matrix { prop_oneof![15 => matrix(p.max_dim, p.square_only), 1 => big_matrix()].boxed() } else { matrix(p.max_dim, p.square_only) };
    // a twin of one base row: same key and part of speech, other reading / headword, on an earlier or later line
    // (inline references name a row by surface, part of speech and reading: they must pick the right twin)
    let twin = prop::option::weighted(0.15, (any::<u16>(), 0u8..4, any::<bool>()));
    let homo = if p.homographs > 0 { prop::option::weighted(1.0 / 16.0, (any::<u16>(), boundary_len(p.homographs), any::<bool>())).boxed() } else { Just(None).boxed() };
    (
        mx,
        vec(base_spec(&p), (if p.anchor_pos { 3 } else { 1 })..=p.max_base.max(3)),
        vec(compound_spec(), 0..=p.max_compound),
        vec(user, p.min_users.min(p.max_users)..=p.max_users),
        homo,
        twin,
    )
        .prop_map(move |(matrix, mut bases, comps, users, homo, twin)| {
            if let Some((i, kind, before)) = twin {
                let first = if p2.anchor_pos { 3.min(bases.len()) } else { 0 };
                if bases.len() > first {
                    let i = first + ix(i, bases.len() - first);
                    let mut t = bases[i].clone();
                    match kind {
                        0 => {
                            t.form_sel |= 1;
                            t.reading = format!("{}ツ", t.reading);
                        }
                        1 => {
                            // the twin's headword differs from the key and its reading equals that headword; the
                            // original keeps reading = key
                            t.form_sel = 6;
                            bases[i].form_sel &= !1;
                            if bases[i].form_sel >= 6 {
                                bases[i].form_sel = 2;
                            }
                        }
                        2 => {
                            t.form_sel = 7;
                            bases[i].form_sel |= 1;
                        }
                        _ => t.cost = t.cost.wrapping_add(3),
                    }
                    t.dic_form = None;
                    if before {
                        bases.insert(i, t);
                    } else {
                        bases.insert(i + 1, t);
                    }
                }
            }
            let mut system = build_entries(&p2, matrix.nl, matrix.nr, bases, comps, SYS_POS, false, None);
            let mut us = Vec::new();
            for (ub, uc) in users {
                us.push(build_entries(&p2, matrix.nl, matrix.nr, ub, uc, USER_POS, true, Some(&system)));
            }
            if let Some((i, n, vary)) = homo {
                // appended after everything else: line numbers used by references stay valid
                let lim = matrix.nl.min(matrix.nr).max(1) as usize;
                let mut src = system[ix(i, system.len())].clone();
                if src.left < 0 {
                    src.left = 0;
                }
                src.split_a.clear();
                src.split_b.clear();
                src.word_structure.clear();
                src.dic_form = None;
                src.mode = 'A';
                for k in 0..n {
                    let mut e = src.clone();
                    e.cost = e.cost.saturating_add((k % 50) as i16).max(i16::MIN + 1);
                    if vary {
                        e.left = (k % lim) as i16;
                        e.right = ((k / lim) % lim) as i16;
                        e.reading = format!("{}{}", src.reading, k);
                    }
                    system.push(e);
                }
            }
            DicModel { matrix, system, users: us }
        })
        .boxed()
}

// ------------------------------------------------------------------------------------------
// configurations

#[derive(Clone, Debug)]
pub struct CfgParams {
    pub input_plugins: bool,
    pub generated_rewrite: bool,
    pub oov_variety: bool,
    pub path_rewrite: bool,
    pub inhibit: bool,
    /// always end the OOV list with the Simple provider
    pub force_fallback: bool,
}

impl CfgParams {
    pub fn full() -> CfgParams {
        CfgParams { input_plugins: true, generated_rewrite: true, oov_variety: true, path_rewrite: true, inhibit: true, force_fallback: true }
    }
}

pub fn small_rewrite_def() -> BoxedStrategy<String> {
    // keys over a tiny alphabet so that prefixes of other keys are frequent
    let keych = select(vec!["a", "b", "c", "Ａ", "ア", "ｱ", "ﾞ", "㍿", "é", "É", "ー", "漢"]);
    let valch = select(vec!["a", "b", "x", "ア", "ガ", "ー", "京都", "", "1"]);
    let pair = (vec(keych, 1..=3).prop_map(|v| v.concat()), vec(valch, 1..=2).prop_map(|v| v.concat()));
    let ignore = select(vec!["Ａ", "㍿", "É", "ﷺ", "ｱ", "a", "Ⅲ"]);
    (vec(pair, 0..8), vec(ignore, 0..3))
        .prop_map(|(pairs, ign)| {
            let mut seen = std::collections::BTreeSet::new();
            let mut s = String::from("# generated\n");
            for i in ign {
                s.push_str(i);
                s.push('\n');
            }
            for (k, v) in pairs {
                if v.is_empty() || !seen.insert(k.clone()) {
                    continue;
                }
                s.push_str(&format!("{}\t{}\n", k, v));
            }
            s
        })
        .boxed()
}

pub fn input_plugins(p: &CfgParams) -> BoxedStrategy<Vec<InputPlugin>> {
    if !p.input_plugins {
        return Just(vec![]).boxed();
    }
    let rewrite = if p.generated_rewrite {
        prop_oneof![2 => Just(FileSrc::Shipped), 1 => Just(FileSrc::TestRes), 2 => small_rewrite_def().prop_map(FileSrc::Text)].boxed()
    } else {
        Just(FileSrc::Shipped).boxed()
    };
    let default = rewrite.prop_map(|rewrite| InputPlugin::Default { rewrite });
    let psm = (
        prop::sample::subsequence(vec!['ー', '-', '⁓', '〜', '〰', '~', ']', '^', '\\', '[', '&'], 1..=5),
        prop::option::of(select(vec!["ー".to_string(), "-".to_string(), "ーー".to_string(), "x".to_string(), "".to_string(), "-ー".to_string()])),
    )
        .prop_map(|(marks, replacement)| InputPlugin::Psm { marks, replacement });
    let yomi = (
        prop::sample::subsequence(vec!['(', '（', '[', '《'], 1..=3),
        prop::sample::subsequence(vec![')', '）', ']', '》'], 1..=3),
        1usize..=5,
    )
        .prop_map(|(left, right, max_len)| InputPlugin::Yomigana { left, right, max_len });
    let one = prop_oneof![3 => default, 2 => psm, 2 => yomi];
    vec(one, 0..=3)
        .prop_map(|mut v| {
            // at most one instance of each kind (the shipped shape); order is free
            let mut kinds = std::collections::BTreeSet::new();
            v.retain(|x| {
                kinds.insert(match x {
                    InputPlugin::Default { .. } => 0,
                    InputPlugin::Psm { .. } => 1,
                    InputPlugin::Yomigana { .. } => 2,
                })
            });
            v
        })
        .boxed()
}

/// OOV providers with ids inside an `nl x nr` matrix
pub fn oov_plugins(p: &CfgParams, nl: u16, nr: u16) -> BoxedStrategy<Vec<OovPlugin>> {
    let id = move |n: u16| (0..n).prop_map(|x| x as i64);
    let simple = (id(nl), id(nr), costs()).prop_map(|(l, r, c)| OovPlugin::Simple {
        pos: pos_from_str(POS_SYM),
        left: l,
        right: r,
        cost: c as i64,
        user_pos: Some(true),
    });
    if !p.oov_variety {
        return simple.prop_map(|s| vec![s]).boxed();
    }
    let mecab = prop_oneof![
        Just(OovPlugin::Mecab { chardef: FileSrc::TestRes, unkdef: FileSrc::Text(small_unk_def(&FileSrc::TestRes, nl, nr)), user_pos: Some(true) }),
        Just(OovPlugin::Mecab { chardef: FileSrc::Shipped, unkdef: FileSrc::Text(small_unk_def(&FileSrc::Shipped, nl, nr)), user_pos: Some(true) }),
    ];
    let regex = (
        id(nl),
        id(nr),
        costs(),
        select(vec!["[a-z]+[0-9]*", "[0-9a-z-]+", "[ア-ン]+", ".", "[a-z0-9]{2,4}", "(?:ab|a)+", "a?", "[0-9]*"]),
        // the optional maxLength setting: ordinary values and the ends of its type (it is an unsigned word)
        prop::option::of(prop_oneof![8 => 1usize..40, 1 => select(vec![0usize, 1, 63, 64, 65, 1 << 32, usize::MAX / 2, usize::MAX - 1, usize::MAX])]),
        prop::option::of(any::<bool>()),
    )
        .prop_map(|(l, r, c, re, max_length, strict)| OovPlugin::Regex {
            pos: pos_from_str(POS_PLUGIN),
            left: l,
            right: r,
            cost: c as i64,
            regex: re.to_string(),
            max_length,
            strict,
            user_pos: Some(true),
        });
    let force = p.force_fallback;
    (vec(prop_oneof![mecab, regex], 0..=2), simple, any::<bool>())
        .prop_map(move |(mut v, s, tail)| {
            if force || tail || v.is_empty() {
                v.push(s);
            }
            v
        })
        .boxed()
}

/// category definition lines (`NAME invoke group length`) of a char.def text
pub fn chardef_categories(text: &str) -> Vec<String> {
    let mut v = Vec::new();
    for line in text.lines() {
        let line = line.trim();
        if line.is_empty() || line.starts_with('#') || line.starts_with("0x") {
            continue;
        }
        let cols: Vec<&str> = line.split_whitespace().collect();
        if cols.len() >= 4 {
            v.push(cols[0].to_string());
        }
    }
    v
}

/// unk.def over the categories the given char.def defines, with ids clamped into the matrix
pub fn small_unk_def(chardef: &FileSrc, nl: u16, nr: u16) -> String {
    let cats = chardef_categories(&read_src("char.def", chardef));
    let mut s = String::new();
    for (i, c) in cats.iter().enumerate() {
        let l = (i as u16) % nl;
        let r = (i as u16 * 7 + 1) % nr;
        let pos = if c == "NUMERIC" || c == "KANJINUMERIC" { POS_NUM } else if c == "SPACE" || c == "DEFAULT" { POS_SYM } else { POS_NOUN };
        s.push_str(&format!("{},{},{},{},{}\n", c, l, r, 3000 + 311 * i as i32, pos));
        if c == "KANJI" || c == "KATAKANA" {
            s.push_str(&format!("{},{},{},{},{}\n", c, r % nl, l % nr, 5000 + 17 * i as i32, POS_PROPER));
        }
    }
    s
}

pub fn path_plugins(p: &CfgParams) -> BoxedStrategy<Vec<PathPlugin>> {
    if !p.path_rewrite {
        return Just(vec![]).boxed();
    }
    let num = prop::option::of(any::<bool>()).prop_map(|enable_normalize| PathPlugin::JoinNumeric { enable_normalize });
    let kata = (0usize..5).prop_map(|min_length| PathPlugin::JoinKatakana { pos: pos_from_str(POS_NOUN), min_length });
    prop_oneof![
        3 => Just(vec![]),
        2 => num.clone().prop_map(|x| vec![x]),
        2 => kata.clone().prop_map(|x| vec![x]),
        2 => (num.clone(), kata.clone()).prop_map(|(a, b)| vec![a, b]),
        1 => (num, kata).prop_map(|(a, b)| vec![b, a]),
    ]
    .boxed()
}

pub fn cfg_model(p: CfgParams, nl: u16, nr: u16) -> BoxedStrategy<CfgModel> {
    let inhibit = if p.inhibit {
        prop::option::weighted(0.3, vec(((0..nl).prop_map(|x| x as i64), (0..nr).prop_map(|x| x as i64)), 0..4)).boxed()
    } else {
        Just(None).boxed()
    };
    (
        prop_oneof![2 => Just(FileSrc::Shipped), 1 => Just(FileSrc::TestRes)],
        input_plugins(&p),
        oov_plugins(&p, nl, nr),
        inhibit,
        path_plugins(&p),
    )
        .prop_map(|(chardef, input, oov, inhibit, path)| CfgModel { chardef, input, oov, inhibit, path })
        .boxed()
}

/// (dictionary, configuration) pairs whose plugin ids fit the dictionary's matrix
pub fn world(dp: DicParams, cp: CfgParams) -> BoxedStrategy<(DicModel, CfgModel)> {
    dic_model(dp)
        .prop_flat_map(move |d| {
            let (nl, nr) = (d.matrix.nl, d.matrix.nr);
            // ids handed to plugins must be valid as left AND right ids: use the smaller dimension
            let n = nl.min(nr);
            (Just(d), cfg_model(cp.clone(), n, n))
        })
        .boxed()
}

// ------------------------------------------------------------------------------------------
// texts

#[derive(Clone, Debug, Serialize, Deserialize, PartialEq, Eq)]
pub enum Piece {
    /// key of a dictionary entry (index over all entries of all dictionaries)
    Key(u16),
    /// pre-normalisation variant of a key: 0 upper-case, 1 full-width, 2 half-width kana style
    Variant(u16, u8),
    Ch(char),
    Raw(String),
    /// run of prolonged sound marks
    Marks(u8, u8),
    /// kanji + bracketed reading
    Yomi(u8, u8, u8),
    Num(String),
    /// a string repeated n times (length-boundary families)
    Rep(String, u32),
    /// a dictionary key repeated n times (long texts: hundreds of morphemes, grown buffers)
    RepKey(u16, u16),
}

pub fn to_fullwidth(s: &str) -> String {
    s.chars()
        .map(|c| {
            if ('!'..='~').contains(&c) {
                char::from_u32(c as u32 - 0x21 + 0xFF01).unwrap()
            } else {
                c
            }
        })
        .collect()
}

pub fn all_keys(d: &DicModel) -> Vec<String> {
    let mut v = Vec::new();
    for k in 0..d.num_dics() {
        for e in d.dic(k) {
            v.push(e.key.clone());
        }
    }
    v
}

pub fn render_pieces(keys: &[String], pieces: &[Piece]) -> String {
    let mut s = String::new();
    const MARKS: &[char] = &['ー', '-', '⁓', '〜', '〰', '~'];
    const KANJI: &[char] = &['京', '都', '漢', '字', '一'];
    const LB: &[char] = &['(', '（', '[', '《'];
    const RB: &[char] = &[')', '）', ']', '》'];
    const KANA: &[char] = &['か', 'な', 'カ', 'ナ', 'ー', 'ん'];
    for p in pieces {
        match p {
            Piece::Key(i) => {
                if !keys.is_empty() {
                    s.push_str(&keys[ix(*i, keys.len())]);
                }
            }
            Piece::Variant(i, k) => {
                if !keys.is_empty() {
                    let key = &keys[ix(*i, keys.len())];
                    match k % 3 {
                        0 => s.push_str(&key.to_uppercase()),
                        1 => s.push_str(&to_fullwidth(key)),
                        _ => s.push_str(&to_fullwidth(&key.to_uppercase())),
                    }
                }
            }
            Piece::Ch(c) => s.push(*c),
            Piece::Raw(r) => s.push_str(r),
            Piece::Marks(a, n) => {
                for j in 0..(*n % 5) {
                    s.push(MARKS[(*a as usize + (j as usize) * (*a as usize % 3)) % MARKS.len()]);
                }
            }
            Piece::Yomi(a, b, n) => {
                s.push(KANJI[*a as usize % KANJI.len()]);
                s.push(LB[*b as usize % LB.len()]);
                for j in 0..(1 + *n % 6) {
                    s.push(KANA[(*a as usize + j as usize) % KANA.len()]);
                }
                s.push(RB[(*b as usize / 4) % RB.len()]);
            }
            Piece::Num(n) => s.push_str(n),
            Piece::Rep(r, n) => {
                for _ in 0..*n {
                    s.push_str(r);
                }
            }
            Piece::RepKey(i, n) => {
                if !keys.is_empty() {
                    let k = &keys[ix(*i, keys.len())];
                    for _ in 0..*n {
                        s.push_str(k);
                    }
                }
            }
        }
    }
    s
}

pub fn piece() -> BoxedStrategy<Piece> {
    prop_oneof![
        8 => any::<u16>().prop_map(Piece::Key),
        2 => (any::<u16>(), 0u8..3).prop_map(|(i, k)| Piece::Variant(i, k)),
        5 => pool_char().prop_map(Piece::Ch),
        1 => "\\PC{0,4}".prop_map(Piece::Raw),
        1 => (any::<u8>(), 0u8..5).prop_map(|(a, n)| Piece::Marks(a, n)),
        1 => (any::<u8>(), any::<u8>(), any::<u8>()).prop_map(|(a, b, n)| Piece::Yomi(a, b, n)),
        1 => "[0-9一二三十百千万,.０-９]{1,6}".prop_map(Piece::Num),
    ]
    .boxed()
}

/// like `piece`, with a small chance of a long repetition (texts of several hundred morphemes)
pub fn piece_long() -> BoxedStrategy<Piece> {
    prop_oneof![
        60 => piece(),
        1 => (any::<u16>(), 40u16..400).prop_map(|(i, n)| Piece::RepKey(i, n)),
        1 => (select(vec!["あ。", "1,", "a ", "ｱﾞ", "㍿", "ーー京"]), 40u32..300).prop_map(|(s, n)| Piece::Rep(s.to_string(), n)),
    ]
    .boxed()
}

pub fn pieces_long(max: usize) -> BoxedStrategy<Vec<Piece>> {
    vec(piece_long(), 0..=max).boxed()
}

pub fn pieces(max: usize) -> BoxedStrategy<Vec<Piece>> {
    vec(piece(), 0..=max).boxed()
}

/// Sizes biased towards the places where fixed-width counters, fixed-size blocks and documented
/// limits change behaviour (2^k - 1, 2^k, 2^k + 1 for k = 4..16 and the limits named in the code).
pub fn boundary_points(max: usize) -> Vec<usize> {
    let mut v: Vec<usize> = Vec::new();
    for k in 4..=16u32 {
        let p = 1usize << k;
        v.extend([p - 1, p, p + 1]);
    }
    v.extend([62, 66, 100, 126, 130, 254, 258, 300, 1000, 4094, 4098, 32766, 32770]);
    v.retain(|x| *x <= max);
    v.sort();
    v.dedup();
    v
}

pub fn boundary_len(max: usize) -> BoxedStrategy<usize> {
    let pts = boundary_points(max);
    if pts.is_empty() {
        return (0..=max).boxed();
    }
    prop_oneof![3 => 0..=max.min(8), 4 => select(pts), 1 => 0..=max].boxed()
}
