#!/bin/bash
# tools/mutant.sh <patch> <Cxx> [tier]  -- sensitivity run: apply a deliberate break to /repo,
# run the check, undo the change straight afterwards. Developer tool, not a registered command.
set -u
P=$(realpath "$1"); ID=$2; TIER=${3:-quick}
cd /verif
if ! git -C /repo diff --quiet; then echo "/repo has uncommitted changes"; exit 3; fi
git -C /repo apply "$P" || { echo "patch does not apply"; exit 3; }
trap 'git -C /repo checkout -- . ' EXIT
./check "$ID" "$TIER" 2>&1 | grep -v "^proptest" | grep -E "VIOLATION|KNOWN|HANG|INCONCLUSIVE|^C[0-9]+ " | cut -c1-260 | head -8
echo "exit=${PIPESTATUS[0]}"
