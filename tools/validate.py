#!/opt/veriftools/pyvenv/bin/python
import json, jsonschema, glob, sys
ok = True
m = json.load(open('/verif/MANIFEST.json'))
jsonschema.validate(m, json.load(open('/root/.vp/MANIFEST.schema.json')))
es = json.load(open('/root/.vp/EVIDENCE.schema.json'))
for c in m['checks']:
    try:
        jsonschema.validate(json.load(open(c['evidence_file'])), es)
    except Exception as e:
        ok = False
        print('EVIDENCE INVALID', c['property_id'], str(e)[:300])
print('manifest ok; evidence', 'ok' if ok else 'BAD')
sys.exit(0 if ok else 1)
