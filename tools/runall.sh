#!/bin/bash
# tools/runall.sh [tier] [seeds...]  -- run every registered check; summary lines only
TIER=${1:-quick}; shift
SEEDS=${@:-0}
cd /verif
for s in $SEEDS; do
  for c in $(python3 -c "import json;print(' '.join(x['property_id'] for x in json.load(open('MANIFEST.json'))['checks']))"); do
    out=$(VERIF_SEED=$s ./check $c $TIER 2>&1); rc=$?
    echo "seed=$s rc=$rc $(echo "$out" | grep -E "^C[0-9]+ " | tail -1 | cut -c1-160)"
    if [ $rc -ne 0 ]; then echo "$out" | grep -E "VIOLATION|FAIL|INCONCLUSIVE|HANG" | cut -c1-400 | head -5; fi
  done
done
