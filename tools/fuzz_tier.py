#!/usr/bin/env python3
"""tools/fuzz_tier.py <Cxx> <seed> <runs>  -- coverage-guided campaign for the thorough tier.

Runs `cargo +nightly fuzz run <target>` on a fresh copy of the seed corpus (fixed -runs, -seed), and
pushes every crash artifact through the deterministic oracle (`vcheck fuzz-replay`). Only a
reproduced oracle failure is a VIOLATION; a crash that does not reproduce is inconclusive (exit 2).
The campaign statistics are added to the evidence file written by vcheck."""
import json, os, re, shutil, subprocess, sys, hashlib
ROOT = os.path.dirname(os.path.dirname(os.path.abspath(__file__)))
TARGETS = {"C03": "tokenize", "C06": "dic_compile", "C07": "normalize", "C16": "sentence", "C17": "chardef"}
pid, seed, runs = sys.argv[1], int(sys.argv[2]), int(sys.argv[3])
target = TARGETS.get(pid)
if not target:
    sys.exit(0)
work = os.path.join(ROOT, "work", "fuzz-" + target)
shutil.rmtree(work, ignore_errors=True)
corpus = os.path.join(work, "corpus"); arts = os.path.join(work, "artifacts")
shutil.copytree(os.path.join(ROOT, "harness", "fuzz", "seeds", target), corpus)
os.makedirs(arts, exist_ok=True)
env = dict(os.environ, CARGO_NET_OFFLINE="true", RUST_BACKTRACE="0", CARGO_TARGET_DIR=os.path.join(ROOT, "target", "fuzz"))
jobs = 4
per = max(1, runs // jobs)
cmd = ["cargo", "+nightly", "fuzz", "run", target, corpus, "--", "-runs=%d" % per, "-seed=%d" % (seed + 1), "-len_control=0", "-max_len=600",
       "-artifact_prefix=%s/" % arts, "-jobs=%d" % jobs, "-workers=%d" % jobs, "-print_final_stats=1"]
p = subprocess.run(cmd, cwd=os.path.join(ROOT, "harness"), env=env, stdout=subprocess.PIPE, stderr=subprocess.STDOUT, text=True, errors="replace")
log = ""
for f in os.listdir(os.path.join(ROOT, "harness")):
    if re.match(r"fuzz-\d+\.log$", f):
        log += open(os.path.join(ROOT, "harness", f), errors="replace").read()
        os.remove(os.path.join(ROOT, "harness", f))
if not log:
    log = p.stdout
execs = sum(int(x) for x in re.findall(r"stat::number_of_executed_units:\s*(\d+)", log))
cov = max([int(x) for x in re.findall(r"cov: (\d+)", log)] or [0])
stats = {"target": target, "runs_requested": runs, "executed_units": execs, "max_cov": cov, "corpus_files_after": len(os.listdir(corpus)), "artifacts": []}
rc = 0
vcheck = os.path.join(ROOT, "target", "release", "vcheck")
for a in sorted(os.listdir(arts)):
    src = os.path.join(arts, a)
    data = open(src, "rb").read()
    dst = os.path.join(ROOT, "replays", pid, "fuzz-%s-%s" % (target, hashlib.sha1(data).hexdigest()[:16]))
    os.makedirs(os.path.dirname(dst), exist_ok=True)
    shutil.copy(src, dst)
    r = subprocess.run([vcheck, "fuzz-replay", target, dst], stdout=subprocess.PIPE, text=True, errors="replace")
    stats["artifacts"].append({"file": dst, "reproduced": r.returncode == 1})
    if r.returncode == 1:
        print(r.stdout.strip())
        rc = 1
    else:
        print("fuzz artifact %s did not reproduce through the deterministic oracle" % dst)
        if rc == 0:
            rc = 2
ev = os.path.join(ROOT, "evidence", pid + ".json")
try:
    e = json.load(open(ev))
    e["coverage"]["fuzz_campaign"] = stats
    e["coverage"]["evaluations"] += execs
    if rc == 1:
        e["violations"] = e.get("violations", 0) + 1
    json.dump(e, open(ev, "w"), indent=1, ensure_ascii=False)
except Exception as ex:
    print("could not update evidence:", ex)
print("fuzz %s: executed=%d cov=%d artifacts=%d" % (target, execs, cov, len(stats["artifacts"])))
sys.exit(rc)
