#!/usr/bin/env python3
"""tools/fuzz_tier.py <Cxx> <seed> <runs> [prop_runs]  -- coverage-guided campaigns for the thorough tier.

Two kinds of libFuzzer campaign (cargo-fuzz, ASan, debug assertions on), both with the property's oracle
inside the target:
  * the byte-level target of the property where one exists (tokenize, dic_compile, normalize, sentence,
    chardef): bytes are decoded into text / file arguments;
  * the generic structured target `prop` for every in-process property: the bytes seed the generator of the
    property's own proptest strategy and the decoded case runs through the property's own oracle under
    AddressSanitizer (libFuzzer is the driver, the sanitizer the added monitor; see harness/src/fuzz.rs for
    why proptest's pass-through RNG cannot be used).
Each runs on a fresh copy of its seed corpus with fixed -runs and -seed; every crash artifact is pushed
through the deterministic oracle (`vcheck fuzz-replay`). Only a reproduced oracle failure is a VIOLATION
(exit 1); a crash that does not reproduce is inconclusive (exit 2). Campaign statistics are added to the
evidence file written by vcheck."""
import json, os, re, shutil, subprocess, sys, hashlib, random
ROOT = os.path.dirname(os.path.dirname(os.path.abspath(__file__)))
TARGETS = {"C03": "tokenize", "C06": "dic_compile", "C07": "normalize", "C16": "sentence", "C17": "chardef"}
NO_PROP = {"C18", "C19"}
pid, seed, runs = sys.argv[1], int(sys.argv[2]), int(sys.argv[3])
prop_runs = int(sys.argv[4]) if len(sys.argv) > 4 else int(os.environ.get("VERIF_FUZZ_PROP_RUNS", "24000"))
vcheck = os.path.join(ROOT, "target", "release", "vcheck")
JOBS = 8


def campaign(target, label, corpus_src, n_runs, max_len, extra_env):
    work = os.path.join(ROOT, "work", "fuzz-" + label.replace(":", "-"))
    shutil.rmtree(work, ignore_errors=True)
    corpus = os.path.join(work, "corpus"); arts = os.path.join(work, "artifacts")
    if corpus_src:
        shutil.copytree(corpus_src, corpus)
    else:
        # any byte string decodes to a valid case: deterministic pseudo-random seeds
        os.makedirs(corpus)
        rnd = random.Random(seed * 1000003 + 17)
        for i, size in enumerate([8, 16, 32, 32, 32, 32, 48, 64]):
            open(os.path.join(corpus, "seed-%d" % i), "wb").write(bytes(rnd.getrandbits(8) for _ in range(size)))
    os.makedirs(arts, exist_ok=True)
    env = dict(os.environ, CARGO_NET_OFFLINE="true", RUST_BACKTRACE="0", CARGO_TARGET_DIR=os.path.join(ROOT, "target", "fuzz"), **extra_env)
    per = max(1, n_runs // JOBS)
    cmd = ["cargo", "+nightly", "fuzz", "run", target, corpus, "--", "-runs=%d" % per, "-seed=%d" % (seed + 1), "-len_control=0", "-max_len=%d" % max_len,
           "-artifact_prefix=%s/" % arts, "-jobs=%d" % JOBS, "-workers=%d" % JOBS, "-print_final_stats=1", "-rss_limit_mb=4096", "-timeout=120"]
    p = subprocess.run(cmd, cwd=os.path.join(ROOT, "harness"), env=env, stdout=subprocess.PIPE, stderr=subprocess.STDOUT, text=True, errors="replace")
    log = ""
    for f in os.listdir(os.path.join(ROOT, "harness")):
        if re.match(r"fuzz-\d+\.log$", f):
            log += open(os.path.join(ROOT, "harness", f), errors="replace").read()
            os.remove(os.path.join(ROOT, "harness", f))
    if not log:
        log = p.stdout
    execs = sum(int(x) for x in re.findall(r"stat::number_of_executed_units:\s*(\d+)", log))
    cov = max([int(x) for x in re.findall(r"cov: (\d+)", log)] or [0])
    stats = {"target": label, "runs_requested": n_runs, "executed_units": execs, "max_cov": cov, "corpus_files_after": len(os.listdir(corpus)), "artifacts": []}
    if execs == 0:
        # the campaign did not run at all (build failure): say so instead of reporting an empty success
        stats["note"] = "campaign did not execute: " + (p.stdout or "")[-400:]
    rc = 0
    for a in sorted(os.listdir(arts)):
        src = os.path.join(arts, a)
        data = open(src, "rb").read()
        dst = os.path.join(ROOT, "replays", pid, "fuzz-%s-%s" % (label.replace(":", "_"), hashlib.sha1(data).hexdigest()[:16]))
        os.makedirs(os.path.dirname(dst), exist_ok=True)
        shutil.copy(src, dst)
        r = subprocess.run([vcheck, "fuzz-replay", label, dst], stdout=subprocess.PIPE, text=True, errors="replace")
        stats["artifacts"].append({"file": dst, "reproduced": r.returncode == 1})
        if r.returncode == 1:
            print(r.stdout.strip())
            rc = 1
        else:
            print("fuzz artifact %s did not reproduce through the deterministic oracle" % dst)
            if rc == 0:
                rc = 2
    if execs == 0 and rc == 0:
        rc = 2
    print("fuzz %s: executed=%d cov=%d artifacts=%d" % (label, execs, cov, len(stats["artifacts"])))
    return rc, stats


results = []
if pid in TARGETS:
    t = TARGETS[pid]
    results.append(campaign(t, t, os.path.join(ROOT, "harness", "fuzz", "seeds", t), runs, 600, {}))
if pid not in NO_PROP and prop_runs > 0:
    results.append(campaign("prop", "prop:" + pid, None, prop_runs, 64, {"VERIF_FUZZ_PROP": pid}))
if not results:
    sys.exit(0)
rc = 1 if any(r == 1 for r, _ in results) else (2 if any(r == 2 for r, _ in results) else 0)
ev = os.path.join(ROOT, "evidence", pid + ".json")
try:
    e = json.load(open(ev))
    e["coverage"]["fuzz_campaigns"] = [s for _, s in results]
    e["coverage"]["evaluations"] += sum(s["executed_units"] for _, s in results)
    if rc == 1:
        e["violations"] = e.get("violations", 0) + 1
    json.dump(e, open(ev, "w"), indent=1, ensure_ascii=False)
except Exception as ex:
    print("could not update evidence:", ex)
sys.exit(rc)
