#!/bin/bash
# build the harness into /verif/target (what ./check uses)
cd "$(dirname "$0")/.." && CARGO_TARGET_DIR=$PWD/target CARGO_NET_OFFLINE=true cargo build --release --offline --manifest-path harness/Cargo.toml 2>&1 | grep -E "^error|Finished" -A8
