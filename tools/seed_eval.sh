#!/bin/bash
# tools/seed_eval.sh <Cxx> <a|b> [extra checks...]
# 1. copies the sub-agent's deliverables from /tmp/wt-<Cxx>/SEEDED/<v> to /verif/seeded/<Cxx>-<v>/
# 2. confirms in that scratch worktree: demo fails with the patch, passes without; the project's
#    test suite stays green with the patch
# 3. applies the patch to /repo, runs the property's check (quick) and any extra checks, restores /repo
set -u
ID=$1; V=$2; shift 2; EXTRA="$@"
# round 2: SEED_ROUND=2 reads /tmp/wt2-<Cxx>/SEEDED/<a|b> and stores it as seeded/<Cxx>-<c|d>
# round 3: /tmp/wt3-<Cxx>, stored as <Cxx>-<e|f>
if [ "${SEED_ROUND:-1}" = 2 ]; then WT=/tmp/wt2-$ID; DV=$(echo $V | tr ab cd); elif [ "${SEED_ROUND:-1}" = 3 ]; then WT=/tmp/wt3-$ID; DV=$(echo $V | tr ab ef); elif [ "${SEED_ROUND:-1}" = 4 ]; then WT=/tmp/wt4-$ID; DV=$(echo $V | tr ab gh); elif [ "${SEED_ROUND:-1}" = 5 ]; then WT=/tmp/wt5-$ID; DV=$(echo $V | tr ab gh); elif [ "${SEED_ROUND:-1}" = 6 ]; then WT=/tmp/wt6-$ID; DV=$(echo $V | tr ab ij); elif [ "${SEED_ROUND:-1}" = 7 ]; then WT=/tmp/wt7-$ID; DV=$(echo $V | tr ab kl); elif [ "${SEED_ROUND:-1}" = 8 ]; then WT=/tmp/wt8-$ID; DV=$(echo $V | tr ab mn); elif [ "${SEED_ROUND:-1}" = 9 ]; then WT=/tmp/wt9-$ID; DV=$(echo $V | tr ab op); elif [ "${SEED_ROUND:-1}" = 10 ]; then WT=/tmp/wt10-$ID; DV=$(echo $V | tr ab qr); else WT=/tmp/wt-$ID; DV=$V; fi
SRC=$WT/SEEDED/$V; DST=/verif/seeded/$ID-$DV
mkdir -p $DST
if [ -d $SRC ]; then cp $SRC/patch.diff $DST/patch.diff; cp $SRC/notes.md $DST/notes.md 2>/dev/null; DEMO=$(ls $SRC | grep -iE '^demo\.(rs|py|sh)$' | head -1); cp $SRC/$DEMO $DST/$DEMO; else DEMO=$(ls $DST | grep -i '^demo\.' | head -1); fi
export CARGO_NET_OFFLINE=true RUST_BACKTRACE=0 PYO3_PYTHON=/opt/veriftools/pyvenv/bin/python
if [ "${SEED_SKIP_CONFIRM:-0}" = 1 ] && [ -f $DST/confirm.env ]; then . $DST/confirm.env; else
cd $WT && git checkout -q -- . && rm -f sudachi/tests/seeded_demo_*.rs
run_demo() { # returns 0 if demo passes
  case "$DEMO" in
    *.rs) cp $SRC/$DEMO sudachi/tests/seeded_demo_x.rs; cargo test -p sudachi --offline --test seeded_demo_x > $DST/demo-$1.log 2>&1; rc=$?; rm -f sudachi/tests/seeded_demo_x.rs; return $rc;;
    *.sh) (cargo build --offline -p sudachipy -p sudachi-cli > $DST/demo-build-$1.log 2>&1) || return 98
          rm -rf target/pydemo && mkdir -p target/pydemo && cp -r python/py_src/sudachipy target/pydemo/ && cp target/debug/libsudachipy.so target/pydemo/sudachipy/sudachipy.so
          SUDACHI_WT=$WT PYTHONPATH=$WT/target/pydemo bash $SRC/$DEMO > $DST/demo-$1.log 2>&1; return $?;;
    *.py) # Python / CLI demonstrations: (re)build the extension and the CLI in the worktree first, stage the package
          (cargo build --offline -p sudachipy -p sudachi-cli > $DST/demo-build-$1.log 2>&1) || return 98
          rm -rf target/pydemo && mkdir -p target/pydemo && cp -r python/py_src/sudachipy target/pydemo/ && cp target/debug/libsudachipy.so target/pydemo/sudachipy/sudachipy.so
          SUDACHI_WT=$WT PYTHONPATH=$WT/target/pydemo python3-vt $SRC/$DEMO $WT/target/pydemo $WT/python/tests/resources > $DST/demo-$1.log 2>&1; return $?;;
    *) return 99;;
  esac
}
run_demo clean; CLEAN=$?
git apply $SRC/patch.diff || { echo "PATCH DOES NOT APPLY"; exit 3; }
run_demo patched; PATCHED=$?
cargo test --workspace --no-fail-fast --offline > $DST/suite-patched.log 2>&1
SUITE_FAIL=$(grep -E "^test result" $DST/suite-patched.log | awk '{f+=$6} END {print f+0}')
SUITE_PASS=$(grep -E "^test result" $DST/suite-patched.log | awk '{p+=$4} END {print p+0}')
git checkout -q -- .
echo "demo clean rc=$CLEAN (want 0), patched rc=$PATCHED (want !=0), suite with patch: passed=$SUITE_PASS failed=$SUITE_FAIL"
printf 'CLEAN=%s\nPATCHED=%s\nSUITE_PASS=%s\nSUITE_FAIL=%s\n' $CLEAN $PATCHED $SUITE_PASS $SUITE_FAIL > $DST/confirm.env
fi
[ "${SEED_SKIP_CHECKS:-0}" = 1 ] && exit 0
# 3. our checks. SEED_ALT=1: run them from a copy of /verif against a second worktree of /repo (/tmp/alt), so that
#    /repo itself stays untouched (needed while a `vp run` soak, which uses /repo, is in progress)
cd /verif
if [ "${SEED_ALT:-0}" = 1 ]; then
  REPO=/tmp/alt/repo; VDIR=/tmp/alt/verif
  [ -d $REPO ] || git -C /repo worktree add --detach $REPO HEAD >/dev/null 2>&1
  git -C $REPO checkout -q --detach $(git -C /repo rev-parse HEAD) 2>/dev/null
  mkdir -p $VDIR && rsync -a --delete --exclude target --exclude work --exclude replays --exclude .git --exclude evidence /verif/ $VDIR/
  mkdir -p $VDIR/evidence
  sed -i "s#/repo/sudachi\"#$REPO/sudachi\"#" $VDIR/harness/Cargo.toml
  sed -i "s#cd /repo #cd $REPO #; s#/repo/python/py_src#$REPO/python/py_src#" $VDIR/check
else
  REPO=/repo; VDIR=/verif
fi
git -C $REPO diff --quiet || { echo "$REPO dirty"; exit 3; }
git -C $REPO apply $DST/patch.diff || { echo "patch does not apply to $REPO"; exit 3; }
RESF=$(mktemp); : > $RESF
for c in $ID $EXTRA; do
  out=$(cd $VDIR && ./check $c ${SEED_TIER:-quick} 2>&1); rc=$?
  first=$(echo "$out" | grep -aE "^FAIL|HANG|INCONCLUSIVE" | head -1 | python3 -c "import sys;print(sys.stdin.buffer.read().decode('utf-8','replace')[:300].replace('\\n',' ').strip())")
  echo "check $c rc=$rc $first"
  python3 - "$c" "$rc" "$first" >> $RESF <<'PY2'
import json,sys
c,rc,first=sys.argv[1:4]
print(json.dumps({"check":c,"exit":int(rc),"first_failure":first.encode("utf-8","replace").decode("utf-8","replace")}))
PY2
done
git -C $REPO checkout -- .
python3 - "$ID" "$DV" "$CLEAN" "$PATCHED" "$SUITE_PASS" "$SUITE_FAIL" "$RESF" <<'PY'
import json,sys
id,v,clean,patched,sp,sf,res=[a.encode("utf-8","replace").decode("utf-8","replace") for a in sys.argv[1:8]]
meta={"property":id,"variant":v,"patch":"patch.diff","demonstration":[f for f in __import__('os').listdir('/verif/seeded/%s-%s'%(id,v)) if f.startswith('demo.')],
 "confirmed":{"demo_passes_without_patch":clean=="0","demo_fails_with_patch":patched!="0","suite_with_patch":{"passed":int(sp),"failed":int(sf)}},
 "what_we_ran":"tools/seed_eval.sh %s %s: demo in the scratch worktree with and without the patch, `cargo test --workspace --no-fail-fast --offline` with the patch, then `git -C /repo apply` + ./check <id> quick + `git -C /repo checkout -- .`"%(id,v),
 "checks":[json.loads(l) for l in open(res) if l.strip()]}
json.dump(meta,open('/verif/seeded/%s-%s/meta.json'%(id,v),'w'),indent=1,ensure_ascii=False)
PY
