#!/usr/bin/env python3
"""Regenerates /verif/MANIFEST.json from the table below (kept in one place so that the
claimed set, the not_applicable list and the commands cannot drift apart)."""
import json, os, subprocess
ROOT = os.path.dirname(os.path.dirname(os.path.abspath(__file__)))

# id -> (technique, level text, level note, design ref)
CLAIMED = {
 "C04": ("property-based testing (proptest): generated layered lexicons; differential against a naive linear scan of the source rows at every byte offset",
         "Exploration: for generated system+user lexicons (prefix chains, 1-127 homographs, non-indexed rows, UTF-8 width boundaries) the multiset of (dictionary, word, end) reported by lookup at every byte offset of generated texts equals a linear scan of the CSV model; exact-surface lookup likewise; one >10,000-id dictionary per run. No absence claim.",
         "Trusts the harness' CSV renderer and byte-wise prefix comparison. Keys containing NUL are not generated (the double-array format cannot hold them; see C06).",
         "DESIGN.md section 4, C04"),
 "C05": ("property-based testing (proptest): round trip compile -> load against the generating model; twice-compile determinism; 4-alignment differential",
         "Exploration: every field of every generated row is read back through the public accessors and compared with the model (boundary-length strings, surrogates, escapes, references, 126/127-item arrays, any matrix shape); compilation is repeated and compared byte for byte; the dictionary is loaded at buffer offsets 0..3 and all observations (fields, matrix, analyses) must agree. No absence claim.",
         "Trusts the model's reference resolution (first matching row for inline references) and the CSV/matrix renderer. Misaligned reads that abort the process are reported through the crash-signal handler.",
         "DESIGN.md section 4, C05"),
 "C02": ("property-based testing (proptest): reference Bellman-Ford in i64 over the lattice's own candidate set (read through the verif hook), costs taken from the generating model",
         "Exploration: for generated lexicons/matrices (negative and extreme costs, homographs, overlaps, user dictionaries, inhibited pairs, all OOV stacks) the returned mode-C path must cost exactly the reference optimum, every lattice node's stored cumulative cost must equal the reference shortest distance, and every morpheme's total_cost must equal the prefix sum recomputed from the CSV parameters and matrix text. No absence claim.",
         "Trusts the hook accessors (read-only copies of lattice fields) and the model matrix/CSV renderer. Candidate generation itself is judged by C04/C13; i32 overflow (F7) is outside the generated domain (texts <= 200 characters).",
         "DESIGN.md section 4, C02"),
 "C06": ("property-based testing (proptest): structured mutation of valid sources from a fault catalogue + exhaustive sink-failure offsets; validity predicate evaluated through the public loader",
         "Exploration + fault enumeration: valid generated (matrix, system CSV, user CSV) receive 0-3 catalogue edits; every builder stage must return Ok/Err without panicking, and every accepted dictionary is judged valid (ids inside the matrix in the dimension they index, references resolve, loads, analyses its own words in all modes with all accessors and the partition predicate); small dictionaries are compiled into a sink failing (or short-writing) at EVERY byte offset and the result must be Err. No absence claim.",
         "Known finding F15 (split units that do not concatenate to the key) is excluded from the analysis step by a predicate on the loaded dictionary and pinned by a reproducer. Byte-level fuzzing of the same oracle is the cargo-fuzz target dic_compile (thorough tier only).",
         "DESIGN.md section 4, C06"),
 "C09": ("property-based testing (proptest): three-mode differential on generated well-formed compound dictionaries against the model's resolved split units",
         "Exploration: the same text is analysed in C, A and B; C boundaries must be contained in A and B boundaries, unit-less C tokens must reappear unchanged, tokens whose word declares >= 2 units must be replaced by exactly the model-resolved units in order partitioning the parent, and split_into must agree with direct tokenisation (false and an untouched output list for unit-less words); with path-rewrite plugins on only boundary inclusion is checked. No absence claim.",
         "Compounds are generated well formed (unit keys concatenate to the key); ill-formed declarations are known finding F15 (C06). Words declaring exactly one unit are outside the statement and not generated.",
         "DESIGN.md section 4, C09"),
 "C10": ("property-based testing (proptest): model-free stateful differential - generated operation histories on one tokenizer + reused result list versus a freshly created tokenizer after every analysing step",
         "Exploration: histories of up to 12 (thorough 40) operations (mode and subset changes, analyses with and without collection, oversized / empty / over-expanding / long inputs, on-demand splits into a spare list, lookups on the reused list) are interpreted on an aged tokenizer and result list; after every analysis and for the final probe the outcome (error kind or morphemes with ranges, ids, costs, surfaces and every requested field) must equal what a fresh tokenizer with the same mode and field request gives. No absence claim.",
         "Field requests contain surface, POS and normalised form whenever path-rewrite plugins are configured (the restriction written into the property). Fields outside the request are not compared.",
         "DESIGN.md section 4, C10"),
 "C11": ("property-based testing (proptest) with a complete inner enumeration: all 1024 field subsets for every generated word; tokenizer-level differential against the full-field analysis in three call orders",
         "Exploration: for every word of generated system/user dictionaries (current and legacy formats, boundary-length strings, references, elided forms) and ALL 2^10 subsets each requested field read through its accessor equals the full-load value; analyses under set_subset(S) keep the partition for every S and, when S covers what path-rewrite plugins read (or none is configured), the same tokens and requested field values as the full-field analysis, for the three orders of set_mode/set_subset. No absence claim.",
         "Subsets are closed by InfoSubset::normalize() as the tokenizer does. Legacy formats are produced by rewriting the version word of freshly compiled dictionaries.",
         "DESIGN.md section 4, C11"),
 "C12": ("property-based testing (proptest): generated stacks of 0-15 user dictionaries with overlapping / plugin-registered parts of speech, checked against the generating model and against the same system dictionary loaded alone",
         "Exploration: every row of every layered dictionary must report the POS strings of its CSV row and split references resolved to the model's rows of the same user dictionary or the system one; every morpheme's dictionary id / word number must name a row whose key is its surface; OOV morphemes report -1 and a configured POS; every declared POS is retrievable; all observations on system words are identical with and without user dictionaries; a 15th user dictionary must be refused with an error. No absence claim.",
         "User dictionaries are compiled against the bare system dictionary or (30 % of the cases) against the loaded dictionary with its plugins set up, the `ubuild` flow (fixed finding F22). No input-text plugin is configured so that key == surface.",
         "DESIGN.md section 4, C12"),
 "C13": ("property-based testing (proptest): generated char.def / unk.def / provider orders against a reference candidate enumerator; provider-level (public trait) and lattice-level (verif hook) set comparison",
         "Exploration: for generated class definitions (multi-class characters, ALL, NOOOVBOW/2), invoke/group/length flags, unk.def lines, provider orders (MeCab, Regex strict/relaxed with maxLength, Simple) and texts (also runs beyond 64 characters) each provider's candidates at every offset with empty / non-empty created-length sets, and the lattice's node sets at every boundary, must equal the reference built from the left-to-right class runs, the created-lengths rule, the NOOOVBOW skip and the fallback re-invocation; OOV morphemes must report is_oov, dictionary -1, a configured POS and the normalised slice as forms. No absence claim.",
         "can_bow is read from the built input buffer (oracle input). The regex provider is compared using the same regex crate. Candidates are compared as sets (multiplicity unspecified).",
         "DESIGN.md section 4, C13"),
 "C14": ("property-based testing (proptest): differential between the same generated configuration with and without the pathRewritePlugin list",
         "Exploration: generated lexicons over numerals, separators and katakana, both plugin orders and settings, texts with numerals, separators at the edges and katakana runs are analysed in mode C with and without path rewriting; rewritten boundaries must be plain boundaries, a token covering several plain tokens must carry the concatenation of their dictionary-side surfaces and a POS a configured plugin prescribes, a token covering one plain token must be identical to it except for the documented single-token numeral normalisation. No absence claim.",
         "Rows with cost -32768 are not generated (their load-time cost depends on the configured plugins, which would make the two sides of the differential different dictionaries). Texts containing empty-range tokens are only judged on the boundary clause. Which tokens get merged is not constrained here (C15 does that for numerals).",
         "DESIGN.md section 4, C14"),
 "C15": ("property-based testing (proptest): numerals generated from a structure together with the decimal rendering of their value; named near-miss mutations judged by a conservative three-valued classifier",
         "Exploration: well-formed numerals (plain digits up to 30 places with leading zeros, Arabic / kanji / mixed / full-width, separators, fractions, unit notation with positional and 千百十 sections and an arbitrarily long top section, fraction x unit) embedded between neutral words must be covered by exactly one token whose normalised form equals the reference decimal string; near misses (bad group width, leading / trailing / double separators, second point, units out of order, leading large unit, noise) must never yield a joined token whose surface is definitely malformed, and joined simple numerals must carry their value. No absence claim.",
         "The generator is a subset of the notations the statement names; shapes outside the generator and outside the malformation rules (e.g. repeated units with a consistent sum reading, zero times a unit) are not judged. Dictionary: one-character numeral entries only (nothing shadows the numeral).",
         "DESIGN.md section 4, C15"),
 "C16": ("property-based testing (proptest): validity predicates over the produced sentence ranges (partition, terminator suffix, bracket level, dictionary-word veto) plus a converse oracle on a constructively simple family",
         "Exploration: texts over terminators, ・ runs, <br> tags, nested / unbalanced brackets, commas, alphanumerics, kanji numerals, quote particles and whitespace, window limits 1-12 and default, with and without the dictionary check (terminator as a word, words containing / ending with / starting with it): sentences must partition the text on character boundaries within len+1 steps, every non-final sentence must end with a terminator group at bracket level 0, no break may sit inside / at the end of a multi-character dictionary word overlapping the terminator group; on the simple family every terminator group must end a sentence. No absence claim.",
         "The converse is required only for texts within the window limit. Only words overlapping the terminator group are required to veto. The itemisation / decimal / quote-particle exceptions are exercised but only judged through the validity clauses.",
         "DESIGN.md section 4, C16"),
 "C17": ("property-based testing (proptest): generated definition files against a union-of-covering-lines reference; point queries at all range ends and neighbours, random scalars, and (thorough) every scalar value",
         "Exploration: for generated char.def files (overlapping, nested, adjacent, duplicated, single-point ranges around 0, the UTF-8 width boundaries, the surrogate gap and U+10FFFF; ALL and NOOOVBOW flags; comments and category lines) that load, the reported classes at every range end +-1, 0, U+10FFFF and 64 random scalars equal the union of covering lines (DEFAULT if none); the range iterator must be ordered, gap free and consistent with point queries. No absence claim.",
         "Files the loader rejects (reversed range, range ending at U+D7FF or U+10FFFF, unknown class) are not judged: the statement speaks about files that load. The iterator is only checked for files with at least one range line.",
         "DESIGN.md section 4, C17"),
 "C18": ("schedule exploration by generated concurrent rounds in fresh child processes, differential against single-threaded results, dictionary snapshot invariant; ThreadSanitizer as race monitor in the thorough tier; Hypothesis-driven Python thread rounds",
         "Exploration of schedules: each generated round (world, 2-16 threads released by a barrier right after the dictionary is wrapped in an Arc, per-thread text streams, start order and yields from the seed) runs in a fresh process so that first-use initialisation is raced; every thread's observations must equal the parent's single-threaded results and the dictionary snapshot must be unchanged; Python threads with their own Tokenizer from one Dictionary must match a sequential run; the thorough tier repeats every round under ThreadSanitizer and treats any report as a violation. Interleavings are sampled, not enumerated: a race needing a rare preemption can be missed.",
         "Trusts the OS scheduler to produce varied interleavings (oversubscription: up to 16 rounds x 16 threads on 16 cores) and TSan's happens-before analysis. JapaneseDictionary: Send + Sync is asserted at compile time in the harness.",
         "DESIGN.md section 4, C18 and section 8"),
 "C19": ("property-based testing: proptest-generated CLI files against a README-format oracle computed with the library; Hypothesis-generated Python call histories against a Rust oracle server; interpreter crash detection through the driver's exit status",
         "Exploration: on 6 worlds loaded from files like the tools do, generated files (blank lines, CRLF, missing final newline, several sentences per line) x modes x -a / -w x --split-sentences are fed to the freshly built sudachi binary and stdout is compared with the formatter applied to the library's analysis of each line without its terminator; generated Python histories (create with mode / fields / projection, tokenize with overrides and out= reuse, indexing, every accessor, split, lookup) are compared field by field with the oracle server, text[begin:end] must be the raw surface, a mode override must not leak, and the interpreter must survive. No absence claim.",
         "pre_tokenizer is not exercised (tokenizers package absent). `--split-sentences only` is compared modulo newlines. A result list is reused as out= only with tokenizers of the projection it was created with (a list keeps its creator's projection).",
         "DESIGN.md section 4, C19"),
 "C20": ("property-based testing (proptest): boundary-value generation of every plugin parameter against an explicit in-range predicate (load succeeds iff predicate); matrix differential and assertion-monitored analysis for accepted configurations",
         "Exploration: matrices n x m with provider ids / costs / inhibited pairs / unk.def lines drawn around {-32769, -32768, -1, 0, n-1, n, n+1, 32767, 32768, 65535, 65536} and POS present/absent x userPOS allow/forbid/missing; loading must return Ok exactly when the predicate holds and never panic; accepted configurations must leave every non-inhibited matrix cell untouched and analyse texts without tripping the matrix index assertions. No absence claim.",
         "Known finding F6a (Simple/Regex id equal to the matrix size accepted) is excluded by predicate and pinned. Left ids are compared with the second matrix dimension, right ids with the first (what the lattice indexes).",
         "DESIGN.md section 4, C20"),
 "C07": ("property-based testing (proptest): reference normaliser / collapser / yomigana remover written from the statement; metamorphic context-independence relation; stride/complete sweep over all Unicode scalar values",
         "Exploration: plugin output through the public trait is compared with an independent reference for generated rewrite tables (prefix keys, exempt characters) and texts that exercise both the optimised and the general path; norm(x|y) = norm(x)|norm(y) is checked model-free; prolonged-sound-mark and yomigana settings are generated likewise; every scalar value alone with the shipped table (quick: every 16th, thorough: all 1,112,064). No absence claim.",
         "Trusts the unicode-normalization crate, Rust's to_lowercase/is_uppercase and the reference implementations in harness/src/model/norm.rs. Title-case letters: both readings accepted.",
         "DESIGN.md section 4, C07"),
 "C08": ("property-based testing (proptest): model-based edit histories against a tracker model of the offset map; code-point offsets recomputed from the original string",
         "Exploration: 1-4 batches of sorted non-overlapping replacements through all four editor entry points are applied to the real InputBuffer and to a tracker model; after every batch and after build() every mapping accessor is compared for every character boundary and every boundary range; begin_c/end_c of every morpheme of generated analyses are recomputed from the original text. No absence claim.",
         "Reads 'unreplaced character maps to itself' as start-to-own-start with position 0 anchored to 0. Which end interior positions of a replaced span map to is not constrained (the statement does not say).",
         "DESIGN.md section 4, C08"),
 "C03": ("property-based testing (proptest) + enumerated length-boundary family; panic/overflow/debug-assert monitors under catch_unwind; reference normaliser for the success clause",
         "Exploration: generated dictionaries x configurations x texts (incl. NUL, controls, unassigned, astral, combining, expanders) x modes x field subsets, every accessor called with debug assertions and overflow checks on; inputs on both sides of the 49,149 / 65,535 byte limits are enumerated for a fixed fallback configuration. No absence claim.",
         "Trusts the unicode-normalization crate (reference normalised length), proptest, and that debug assertions + overflow checks + catch_unwind make out-of-range accesses visible (get_unchecked reads are additionally covered by the ASan fuzz target when built). Known finding F7 is outside the generated domain.",
         "DESIGN.md section 4, C03"),
 "C01": ("property-based testing (proptest): generated dictionaries x plugin configurations x texts; partition predicate as validity oracle",
         "Exploration: every generated (dictionary, configuration, text, mode) is analysed by the real library and the partition/surface predicate of the statement is evaluated on the result, including on-demand splits. Holds on everything explored; no absence claim.",
         "Trusts proptest's generators/shrinker, the harness' renderer of CSV/matrix/config text, and Rust's str::is_char_boundary. Only bundled plugins are configured.",
         "DESIGN.md section 4, C01"),
}
PENDING = {}
# constructed families (Property::extra) per property, see DESIGN.md 3.4b
FAMILIES = {
 "C01": "inputs of 49,140-49,160 bytes, normalised lengths of 65,520-65,560 bytes",
 "C02": "periodic workloads on one tokenizer that revisit a boundary after exactly 2^16 / 2^17 lattice positions",
 "C03": "inputs of 49,140-49,160 bytes, normalised lengths of 65,520-65,560 bytes, expanders before shrinkers",
 "C04": "a > 10,000-id dictionary and a double-array trie beyond 2^21 units",
 "C06": "255-65,537 distinct parts of speech, 63-257 homographs of one key, matrices of 181x181 to 300x300 cells",
 "C10": "16 (thorough 64) marathon histories of 2,500+ (10,000+) operations and the periodic workloads of C02",
 "C14": "digit, digit-group and katakana runs of 255-49,149 bytes merged into one token",
 "C15": "numerals of 255-49,000 digits with and without fraction, up to 10,000 comma groups",
 "C19": "Python texts of 49,147-49,152 bytes; CLI files whose line end falls on a multiple of the 8 KiB read block",
}

def main():
    props = [json.loads(l) for l in open(os.path.join(ROOT, "properties.jsonl"))]
    ids = [p["id"] for p in props]
    try:
        hook = subprocess.check_output(["git", "-C", "/repo", "log", "--format=%h", "--grep", "verif hooks"], text=True).split()
    except Exception:
        hook = []
    checks = []
    for i in ids:
        if i not in CLAIMED:
            continue
        tech, text, note, ref = CLAIMED[i]
        if i not in ("C18", "C19"):
            tech += "; thorough tier adds libFuzzer (cargo-fuzz, AddressSanitizer) campaigns that run the same oracle in-target" + (" on a byte-level target and" if i in ("C03", "C06", "C07", "C16", "C17") else "") + " on the property's own generated cases"
        if i in FAMILIES:
            text = text.replace(" No absence claim.", "") + " Constructed families at the documented sizes and limits (" + FAMILIES[i] + ") run through the same oracle in every tier. No absence claim."
        checks.append({
            "property_id": i,
            "quick_cmd": f"./check {i} quick",
            "thorough_cmd": f"./check {i} thorough",
            "evidence_file": f"/verif/evidence/{i}.json",
            "replay_cmd_template": f"./check {i} quick --replay {{path}}",
            "engine": "vcheck",
            "level_claimed": {"category": "exploration", "text": text, "design_ref": ref},
            "level_note": note,
            "technique": tech,
        })
    na = []
    for i in ids:
        if i not in CLAIMED:
            na.append({"property_id": i, "reason": PENDING.get(i, "check not built yet in this session (work in progress; see DESIGN.md section 4 for the planned generator and oracle)")})
    m = {
        "version": 1,
        "setup_cmd": "cd /verif/harness && CARGO_NET_OFFLINE=true CARGO_TARGET_DIR=/verif/target cargo build --release --offline && cd /repo && CARGO_NET_OFFLINE=true CARGO_TARGET_DIR=/verif/target/repo PYO3_PYTHON=/opt/veriftools/pyvenv/bin/python cargo build --offline -p sudachi-cli -p sudachipy",
        "hooks": {
            "guard": "cargo feature `verif` of crate sudachi (sudachi/Cargo.toml [features] verif = [])",
            "enable": "the harness depends on sudachi = { path = \"/repo/sudachi\", features = [\"verif\"] }; every ./check run starts with cargo build of the harness, which rebuilds /repo/sudachi from its working tree",
            "baseline_off_cmd": "cd /repo && cargo test --workspace --no-fail-fast --offline",
            "source_commits": hook,
            "add_only": True,
        },
        "engines": [
            {"name": "vcheck", "path": "/verif/harness", "serves_properties": [c["property_id"] for c in checks],
             "kind_free_text": "Rust binary (plus py/c19_check.py and py/c18_check.py, Hypothesis drivers run by it for the Python halves of C19/C18): proptest TestRunner driven from a seeded, 16-shard runner with panic capture, watchdog, shrinking, JSON replay files and evidence writer; oracles are reference models / validity predicates / differentials written in the harness"},
        ],
        "checks": checks,
        "not_applicable": na,
        "notes": "Exit codes: 0 held, 1 VIOLATION (line printed), 2 inconclusive (build failure, watchdog, too few non-trivial cases). VERIF_SEED selects the PRNG seed (default 0). known_findings.txt lists recorded/fixed genuine defects.",
    }
    json.dump(m, open(os.path.join(ROOT, "MANIFEST.json"), "w"), indent=1, ensure_ascii=False)
    print("claimed", [c["property_id"] for c in checks], "not_applicable", len(na))

main()
