#!/usr/bin/env python3
"""Fills seeded/<id>/meta.json `needs_to_manifest` from the sub-agent's notes.md (section whose
heading mentions what is needed / boundary / trigger / manifest). Prints the ids where nothing was found."""
import json, os, re, sys
root = os.path.join(os.path.dirname(os.path.abspath(__file__)), '..', 'seeded')
for d in sorted(os.listdir(root)):
    mp = os.path.join(root, d, 'meta.json'); np = os.path.join(root, d, 'notes.md')
    if not os.path.exists(mp): continue
    meta = json.load(open(mp))
    if meta.get('needs_to_manifest') and '--force' not in sys.argv: continue
    text = open(np, encoding='utf-8', errors='replace').read() if os.path.exists(np) else ''
    # split into sections by markdown headings or bold / plain "Title:" lines
    parts = re.split(r'(?m)^(#{1,4} .*|\*\*[^*\n]{3,80}\*\*:?\s*|[A-Z][^\n]{3,70}:\s*)$', text)
    found = None
    for i in range(1, len(parts) - 1, 2):
        h = parts[i].lower()
        if re.search(r'need|manifest|boundary|trigger|when it shows|threshold|condition', h):
            body = parts[i + 1].strip()
            if len(body) > 40:
                found = body; break
    if not found:
        m = re.search(r'(?is)(needs?|manifests?|only (shows|when)|boundary)[^\n]*\n(.{40,900})', text)
        if m: found = m.group(0).strip()
    if found:
        found = re.sub(r'\s+', ' ', found)[:900]
        meta['needs_to_manifest'] = found
        json.dump(meta, open(mp, 'w'), indent=1, ensure_ascii=False)
    else:
        print('NO NEEDS', d)
