#!/bin/bash
# tools/seed_batch.sh <round> <Cxx>...   confirm each id's a and b in its own worktree (ids in parallel, a then b),
# then run our checks against /repo one change at a time
R=$1; shift
cd /verif
for id in "$@"; do
  ( for v in a b; do [ -f /tmp/confirm-$id-$v.done ] || { SEED_ROUND=$R SEED_SKIP_CHECKS=1 tools/seed_eval.sh $id $v > /tmp/confirm-$id-$v.log 2>&1; touch /tmp/confirm-$id-$v.done; }; done ) &
done
wait
for id in "$@"; do for v in a b; do
  echo "== $id $v: $(tail -n 1 /tmp/confirm-$id-$v.log | cut -c1-200)"
  SEED_ROUND=$R SEED_SKIP_CONFIRM=1 tools/seed_eval.sh $id $v 2>&1 | grep "^check" | cut -c1-420
done; done
git -C /repo status --short
