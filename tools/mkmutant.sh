#!/bin/bash
# tools/mkmutant.sh <name> <file under /repo> <perl -0pe expression>   -> mutants/<name>.diff
set -eu
cd /repo
git diff --quiet || { echo "/repo dirty"; exit 3; }
perl -0pi -e "$3" "$2"
if git diff --quiet; then echo "NO CHANGE for $1"; exit 4; fi
git diff > /verif/mutants/$1.diff
git checkout -- .
echo "made mutants/$1.diff"
